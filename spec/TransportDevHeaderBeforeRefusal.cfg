SPECIFICATION Spec
CONSTANTS MaxMsgs = 2
 Dev = {"HeaderBeforeRefusal"}
INVARIANTS DeliveredIsPrefixOfSent ModeDetected EofIsEof ErrOnlyMidFrame
