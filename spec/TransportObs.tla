---------------------------- MODULE TransportObs ----------------------------
(* C08 - observable level: what a run over a real TCP connection must surface, and the exact
   frame header bytes.  Every recorded run (harness: `verif transport`) is judged here by TLC;
   the verdicts (runs that are not explained) are written to IOEnv.VERIF_OUT.

   A read run: the peer announced `mode` (mode level) and wrote frames for the messages
   `sent` (byte lengths), cut into TCP segments at `cuts`, then closed at a frame boundary or
   after a strict prefix of the last frame ("mid").  The code must deliver exactly the sent
   messages in order (Transport!DeliveredIsPrefixOfSent + AllDeliveredAtEof), surface a
   four-byte frame at transport level as the signed code it carries, then report
   end-of-stream (boundary; after a torn frame an error is fine too) - never a message.  The cuts are irrelevant. *)
EXTENDS Integers, Sequences, FiniteSets, TLC, Json, IOUtils

Runs == ndJsonDeserialize(IOEnv.VERIF_RUNS)

AnnBytes(m) == IF m = "abridged" THEN <<239>> ELSE <<238, 238, 238, 238>>
\* Abridged: one byte = length in 4-byte words when below 127, else 0x7f + 3 bytes little-endian;
\* Intermediate: 4 bytes little-endian byte length
LE(n, w) == [i \in 1..w |-> (n \div (256 ^ (i - 1))) % 256]
FrameHeader(m, nbytes) ==
  IF m = "abridged"
    THEN LET words == nbytes \div 4 IN IF words < 127 THEN <<words>> ELSE <<127>> \o LE(words, 3)
    ELSE LE(nbytes, 4)

Proj(g) == IF g.k = "msg" THEN <<"msg", g.idx>> ELSE IF g.k = "code" THEN <<"code", g.v>> ELSE <<g.k>>
ExpectedRead(r) ==
  LET n == IF r.close = "mid" THEN Len(r.sent) - 1 ELSE Len(r.sent)
      item(i) == IF r.level = "transport" /\ r.sent[i] = 4 THEN <<"code", r.codes[i]>> ELSE <<"msg", i>>
  IN [i \in 1..n |-> item(i)]

\* after the complete frames: end-of-stream at a frame boundary; when the peer died inside a
\* frame either an error or end-of-stream (the statement only forbids surfacing a message)
EndOK(r, g) == IF r.close = "mid" THEN g.k \in {"err", "eof"} ELSE g.k = "eof"
(* A sequence of writes on one connection (Transport!WriteFrame / WriteRefuse): message i is sent[i] bytes of value 200 + i.
   What the format can carry must be accepted (Abridged: multiples of four; Intermediate: anything); the peer receives
   the announcement followed by the frames of exactly the accepted messages - a refused message leaves no byte behind. *)
Carriable(m, n) == m = "intermediate" \/ n % 4 = 0
Flat(ss) == LET RECURSIVE F(_, _)
                F(lo, hi) == IF lo > hi THEN <<>> ELSE IF lo = hi THEN ss[lo]
                             ELSE LET mid == (lo + hi) \div 2 IN F(lo, mid) \o F(mid + 1, hi)
            IN F(1, Len(ss))
SeqFrame(m, i, n) == (IF n = 0 /\ m = "abridged" THEN <<0>> ELSE FrameHeader(m, n)) \o [j \in 1..n |-> 200 + i]
SeqOK(r) ==
  /\ r.got = <<>> /\ Len(r.oks) = Len(r.sent)
  /\ \A i \in 1..Len(r.sent) : Carriable(r.mode, r.sent[i]) => r.oks[i]
  /\ r.wire = AnnBytes(r.mode) \o Flat([i \in 1..Len(r.sent) |-> IF r.oks[i] THEN SeqFrame(r.mode, i, r.sent[i]) ELSE <<>>])

\* a link slower than the reader's patience (the stream stands still for longer than the read timeout): the reader may give
\* up with an error at that point - or deliver everything if it waits on -, but what it delivers is what was sent
SlowOK(r) ==
  LET e == ExpectedRead(r) IN
  \E n \in 0..Len(e) :
    /\ Len(r.got) = n + 1
    /\ [i \in 1..n |-> Proj(r.got[i])] = SubSeq(e, 1, n)
    /\ IF n = Len(e) THEN r.got[n + 1].k \in {"eof", "err"} ELSE r.got[n + 1].k = "err"

RunOK(r) ==
  IF r.op = "writeseq" THEN SeqOK(r) ELSE
  IF r.op = "read" /\ r.slow THEN SlowOK(r) ELSE
  IF r.op = "read"
    THEN LET e == ExpectedRead(r) IN
         /\ Len(r.got) = Len(e) + 1
         /\ [i \in 1..Len(e) |-> Proj(r.got[i])] = e
         /\ EndOK(r, r.got[Len(r.got)])
  ELSE /\ r.got = <<>> /\ r.body
       /\ r.ann = AnnBytes(r.mode)
       /\ (IF r.len = 0 /\ r.mode = "abridged" THEN r.hdr = <<0>> ELSE r.hdr = FrameHeader(r.mode, r.len))

Kind(r) ==
  IF r.op = "write" THEN "write-framing"
  ELSE IF r.op = "writeseq" THEN (IF \E i \in 1..Len(r.got) : r.got[i].k = "panic" THEN "panic" ELSE "write-sequence-framing")
  ELSE IF \E i \in 1..Len(r.got) : r.got[i].k = "panic" THEN "panic"
  ELSE IF \E i \in 1..Len(r.got) : r.got[i].k = "code" /\ i <= Len(r.sent) /\ r.codes[i] # "" /\ r.got[i].v # r.codes[i] THEN "wrong-code"
  ELSE IF r.slow THEN "wrong-delivery-over-a-slow-link"
  ELSE IF r.close = "boundary" /\ r.got # <<>> /\ r.got[Len(r.got)].k = "err" THEN "error-on-clean-stream"
  ELSE "wrong-delivery"

Bad == SelectSeq(Runs, LAMBDA r : ~RunOK(r))
ASSUME ndJsonSerialize(IOEnv.VERIF_OUT, [i \in 1..Len(Bad) |-> [id |-> Bad[i].id, kind |-> Kind(Bad[i])]])
ASSUME PrintT(<<"judged", Len(Runs), "bad", Len(Bad)>>)
=============================================================================
