---------------------------- MODULE EnvelopeTerm ----------------------------
(* C03 / C04 - term instance of Envelope.tla.  TLC evaluates the layout for every case (body
   length, direction, acknowledgement flag, mutation class) and serialises terms + relations;
   the Go harness binds the inputs with seeded concrete values, runs the real
   messages.Encrypted.Serialize / DeserializeEncrypted / Unencrypted code and checks them. *)
EXTENDS Terms, TLC, Json, IOUtils, FiniteSets, SequencesExt
CONSTANTS BodyLens, MutLens

E == INSTANCE Envelope WITH Sha1 <- Sha1, IgeE <- IgeEP, Cat <- CatSeq, Slice <- Slice, LE <- LE, PadBytes <- Free, Num <- IntLit

K == Var("auth_key")
Fields(seq) == <<Var("salt"), Var("sid"), Var("mid"), seq>>

(* ---- how a receiver opens a packet (dynamic: works on any byte string) ---- *)
\* ordered definitions; a definition or check that cannot be evaluated means "refused"
OpenDefs(dir) == <<
  <<"kid", Slice(Var("pkt"), 0, 8)>>,
  <<"mk", Slice(Var("pkt"), 8, 24)>>,
  <<"ct", DSlice(Var("pkt"), IntLit(24), LenOf(Var("pkt")))>>,
  <<"dec", IgeDP(E!AesKey(K, Var("mk"), E!X(dir)), E!AesIV(K, Var("mk"), E!X(dir)), Var("ct"))>>,
  <<"L", SIntLE(Slice(Var("dec"), 28, 32))>>,
  <<"o_salt", SIntLE(Slice(Var("dec"), 0, 8))>>,
  <<"o_sid", SIntLE(Slice(Var("dec"), 8, 16))>>,
  <<"o_mid", SIntLE(Slice(Var("dec"), 16, 24))>>,
  <<"o_seq", SIntLE(Slice(Var("dec"), 24, 28))>>,
  <<"o_body", DSlice(Var("dec"), IntLit(32), Add(IntLit(32), Var("L")))>> >>
\* the five receive checks (C04); parity only for what a client receives
AcceptChecks(dir) == <<
  Eq(Var("kid"), E!KeyId(K)),
  Le(IntLit(16), LenOf(Var("ct"))), Eq(Mod(LenOf(Var("ct")), IntLit(16)), IntLit(0)),
  Le(IntLit(0), Var("L")), Le(Var("L"), Sub(LenOf(Var("dec")), IntLit(32))),
  Eq(Var("mk"), Slice(Sha1(DSlice(Var("dec"), IntLit(0), Add(IntLit(32), Var("L")))), 4, 20)) >>
  \o (IF dir = "s2c" THEN << Eq(Mod(Var("o_mid"), IntLit(2)), IntLit(1)) >> ELSE <<>>)

(* ---- C03 ---- *)
\* client -> server: the real Serialize output, opened the way a conformant server does
C2SCase(n, ack) ==
  [kind |-> "c2s", n |-> n, ack |-> ack, defs |-> OpenDefs("c2s"),
   checks |-> AcceptChecks("c2s") \o <<
     Eq(LenOf(Var("pkt")), IntLit(E!PacketLen(n))),                      \* fewer than 16 padding bytes
     Eq(Slice(Var("dec"), 0, 32 + n),
        E!Plain(Var("salt"), Var("sid"), Var("mid"), IF ack THEN Add(Var("seq"), IntLit(1)) ELSE Var("seq"), n, Var("body"))) >>]
\* server -> client: a packet sealed per the specification must come out as exactly its fields
S2CCase(n) ==
  [kind |-> "s2c", n |-> n,
   pkt |-> E!Seal("s2c", K, Var("salt"), Var("sid"), Var("mid"), Var("seq"), n, Var("body")),
   checks |-> << Eq(Var("r_salt"), Var("salt")), Eq(Var("r_sid"), Var("sid")), Eq(Var("r_mid"), Var("mid")),
                 Eq(Var("r_seq"), Var("seq")), Eq(Var("r_body"), Var("body")) >>]
PlainOutCase(n) == [kind |-> "plain_out", n |-> n, checks |-> << Eq(Var("pkt"), E!Unencrypted(Var("mid"), n, Var("body"))) >>]
PlainInCase(n) == [kind |-> "plain_in", n |-> n, pkt |-> E!Unencrypted(Var("mid"), n, Var("body")),
                   checks |-> << Eq(Var("r_mid"), Var("mid")), Eq(Var("r_body"), Var("body")) >>]

(* ---- C04: what may happen to a server -> client packet ---- *)
Honest(n) == E!Seal("s2c", K, Var("salt"), Var("sid"), Var("mid"), Var("seq"), n, Var("body"))
\* the key holder writes `decl` into the length field; msg_key over header + decl bytes when that
\* lies inside what it encrypts, else over the plain it built
Padded(n, decl) == CatSeq(<<E!Plain(Var("salt"), Var("sid"), Var("mid"), Var("seq"), decl, Var("body")), Var("padding")>>)
Resealed(n, decl) ==
  LET total == 32 + n + E!Pad16(32 + n)
      over == IF decl >= 0 /\ decl <= total - 32 THEN Slice(Padded(n, decl), 0, 32 + decl)
              ELSE E!Plain(Var("salt"), Var("sid"), Var("mid"), Var("seq"), decl, Var("body"))
      mk == E!MsgKeyOf(over)
  IN CatSeq(<<E!KeyId(K), mk, IgeEP(E!AesKey(K, mk, 8), E!AesIV(K, mk, 8), Padded(n, decl))>>)

MutClasses == {"none", "flip-keyid", "flip-msgkey", "flip-ct-first", "flip-ct-middle", "flip-ct-last",
               "trunc-0", "trunc-1-7", "trunc-8-23", "trunc-24", "trunc-unaligned", "trunc-blocks",
               "extend-block", "rekey", "garbage", "mid-mod4-0", "mid-mod4-2", "mid-mod4-3", "otherdir"}
MutCase(n, m) == [kind |-> "mutate", n |-> n, mutation |-> m, pkt |-> Honest(n),
                  pkt_other |-> E!Seal("c2s", K, Var("salt"), Var("sid"), Var("mid"), Var("seq"), n, Var("body")),
                  defs |-> OpenDefs("s2c"), accept |-> AcceptChecks("s2c")]
DeclCase(n, decl) == [kind |-> "declared", n |-> n, decl |-> decl, padlen |-> E!Pad16(32 + n), pkt |-> Resealed(n, decl),
                      defs |-> OpenDefs("s2c"), accept |-> AcceptChecks("s2c")]
DeclSet(n) == {-2147483647, -1, 2147483647} \cup {d \in (n - 33)..(n + 33) : TRUE}

AsSeq(S) == SetToSeq(S)
Cases ==
     AsSeq({C2SCase(n, a) : n \in BodyLens, a \in BOOLEAN})
  \o AsSeq({S2CCase(n) : n \in BodyLens})
  \o AsSeq({PlainOutCase(n) : n \in BodyLens}) \o AsSeq({PlainInCase(n) : n \in BodyLens})
MutCases ==
     AsSeq({MutCase(n, m) : n \in MutLens, m \in MutClasses})
  \o AsSeq({DeclCase(n, d) : n \in MutLens, d \in UNION {DeclSet(k) : k \in MutLens}})

ASSUME ndJsonSerialize(IOEnv.VERIF_OUT, Cases)
ASSUME ndJsonSerialize(IOEnv.VERIF_OUT2, MutCases)
=============================================================================
