SPECIFICATION Spec
CONSTANTS MaxLen = 5
 Dev = {}
INVARIANTS Total AllocBounded BoundedSteps ValueMeansComplete
PROPERTY Terminates
