SPECIFICATION Spec
CONSTANTS MaxSegs = 2
 Dev = {}
INVARIANTS TypeOK Total Agrees
PROPERTY Terminates
