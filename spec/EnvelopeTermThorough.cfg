CONSTANTS BodyLens = {0, 1, 2, 3, 4, 5, 6, 7, 8, 9, 10, 11, 12, 13, 14, 15, 16, 17, 20, 24, 28, 31, 32, 33, 36, 40, 44, 47, 48, 49, 52, 56, 60, 63, 64, 65, 1024, 4096, 65535, 65536}
 MutLens = {0, 4, 12, 16, 28, 40, 1024}
