---------------------------- MODULE EnvelopeToy ----------------------------
(* C03 / C04 - toy instance with *symbolic bytes*: a byte string is a sequence of runs over
   abstract sources; hashes and ciphertexts are free constructors, so two strings are equal exactly when
   they were built the same way (collision-free hash, ideal cipher).  The receive machine
   below is shaped like messages.DeserializeEncrypted (the checks in the code's order).

   Model-checked: every sealed packet opens to exactly its fields under its own direction
   and is refused under the other direction's key schedule; every mutated packet is refused
   unless the mutation is a consistent re-sealing by the key holder, in which case what is
   delivered is what was sealed; the machine never reaches a panic state.

   Dev: LengthGuardInverted - the declared-length sanity test never fires (compares the wrong
        way), so an oversized / negative length reaches a slice expression. *)
EXTENDS Integers, Sequences, FiniteSets, TLC

CONSTANTS Dev, BodyLens

\* A byte string is a sequence of runs <<src, a, b>> = bytes a+1..b of the abstract source `src`;
\* sources: <<"key", name>> (256 bytes), <<"h", S>> (SHA-1 of string S, 20 bytes), <<"le", v, w>>,
\* <<"body", n>>, <<"pad", n>>, <<"ige", k, iv, D>> (ciphertext of D), <<"junk", ...>>.
\* Strings are kept normalised (no empty runs, adjacent runs of one source merged), so two
\* strings are equal exactly when they denote the same bytes of the same sources.
RLen(r) == r[3] - r[2]
RECURSIVE SLen(_)
SLen(S) == IF S = <<>> THEN 0 ELSE RLen(S[1]) + SLen(Tail(S))
RECURSIVE Norm(_)
Norm(S) ==
  IF S = <<>> THEN <<>>
  ELSE IF RLen(S[1]) = 0 THEN Norm(Tail(S))
  ELSE IF Len(S) >= 2 /\ RLen(S[2]) = 0 THEN Norm(<<S[1]>> \o Tail(Tail(S)))
  ELSE IF Len(S) >= 2 /\ S[1][1] = S[2][1] /\ S[1][3] = S[2][2]
         THEN Norm(<<<<S[1][1], S[1][2], S[2][3]>>>> \o Tail(Tail(S)))
  ELSE <<S[1]>> \o Norm(Tail(S))
RECURSIVE Drop(_, _)
Drop(S, i) == IF i <= 0 \/ S = <<>> THEN S
              ELSE IF RLen(S[1]) <= i THEN Drop(Tail(S), i - RLen(S[1]))
              ELSE <<<<S[1][1], S[1][2] + i, S[1][3]>>>> \o Tail(S)
RECURSIVE Take(_, _)
Take(S, j) == IF j <= 0 \/ S = <<>> THEN <<>>
              ELSE IF RLen(S[1]) <= j THEN <<S[1]>> \o Take(Tail(S), j - RLen(S[1]))
              ELSE <<<<S[1][1], S[1][2], S[1][2] + j>>>>
Whole(src, n) == IF n = 0 THEN <<>> ELSE <<<<src, 0, n>>>>
TSlice(x, i, j) == Norm(Take(Drop(x, i), j - i))
Flat(s) == LET RECURSIVE F(_) F(k) == IF k > Len(s) THEN <<>> ELSE s[k] \o F(k + 1) IN F(1)
TCat(s) == Norm(Flat(s))
TSha1(x) == Whole(<<"h", x>>, 20)
TLE(w, v) == Whole(<<"le", v, w>>, w)
TNum(k) == k
TPad(n) == Whole(<<"pad", n>>, n)
TIgeE(k, iv, d) == Whole(<<"ige", k, iv, d>>, SLen(d))
\* IGE chains forward only: a block-aligned prefix of an untouched ciphertext decrypts to the
\* same prefix of the plaintext; everything from the first foreign byte's block on is junk
TIgeD(k, iv, c) ==
  IF c # <<>> /\ c[1][1][1] = "ige" /\ c[1][2] = 0 /\ c[1][1][2] = k /\ c[1][1][3] = iv
    THEN LET good == 16 * (RLen(c[1]) \div 16) IN
         Norm(TSlice(c[1][1][4], 0, good) \o Whole(<<"junk", c>>, SLen(c) - good))
    ELSE Whole(<<"junk", c>>, SLen(c))

E == INSTANCE Envelope WITH Sha1 <- TSha1, IgeE <- TIgeE, Cat <- TCat, Slice <- TSlice, LE <- TLE, PadBytes <- TPad, Num <- TNum

KeyOf(name) == Whole(<<"key", name>>, 256)
BodyOf(len) == Whole(<<"body", len>>, len)

Dirs == {"c2s", "s2c"}
Other(d) == IF d = "c2s" THEN "s2c" ELSE "c2s"
\* what may have happened to the packet between sealing and receiving
Mutations == {"none", "otherdir", "flip-keyid", "flip-msgkey", "flip-first", "flip-last", "trunc-0", "trunc-7", "trunc-23",
              "trunc-24", "trunc-unaligned", "trunc-block", "rekey", "garbage", "parity-0", "parity-2",
              "len-neg", "len-minus1", "len-plus1", "len-huge", "len-short-consistent"}

VARIABLES dir, n, mut, pkt, pc, dec, L, res
vars == <<dir, n, mut, pkt, pc, dec, L, res>>

Salt == 7  Sid == 9  SeqNo == 3
Mid(m) == IF m = "parity-0" THEN 100 ELSE IF m = "parity-2" THEN 102 ELSE 101
Honest(d, len, m) == E!Seal(d, KeyOf("K"), Salt, Sid, Mid(m), SeqNo, len, BodyOf(len))
FlipAt(p, i) == TCat(<<TSlice(p, 0, i - 1), Whole(<<"flip", TSlice(p, i - 1, i)>>, 1), TSlice(p, i, SLen(p))>>)
Declared(d, len, decl, over) ==
  E!SealDeclared(d, KeyOf("K"), Salt, Sid, 101, SeqNo, len, decl, BodyOf(len), over)
HonestPlain(len, decl) == E!Plain(Salt, Sid, 101, SeqNo, decl, BodyOf(len))

Pad16Of(len) == E!Pad16(32 + len)

Build(d, len, m) ==
  LET h == Honest(d, len, m) IN
  CASE m \in {"none", "otherdir", "parity-0", "parity-2"} -> h
    [] m = "flip-keyid"  -> FlipAt(h, 3)
    [] m = "flip-msgkey" -> FlipAt(h, 12)
    [] m = "flip-first"  -> FlipAt(h, 25)
    [] m = "flip-last"   -> FlipAt(h, SLen(h))
    [] m = "trunc-0"     -> <<>>
    [] m = "trunc-7"     -> TSlice(h, 0, 7)
    [] m = "trunc-23"    -> TSlice(h, 0, 23)
    [] m = "trunc-24"    -> TSlice(h, 0, 24)
    [] m = "trunc-unaligned" -> TSlice(h, 0, SLen(h) - 5)
    [] m = "trunc-block" -> TSlice(h, 0, SLen(h) - 16)
    [] m = "rekey"       -> E!Seal(d, KeyOf("Other"), Salt, Sid, 101, SeqNo, len, BodyOf(len))
    [] m = "garbage"     -> TCat(<<TSlice(h, 0, 24), Whole(<<"junk", "attacker">>, 32)>>)
    \* the key holder lies about the length; msg_key computed over what it actually sealed
    [] m = "len-neg"     -> Declared(d, len, -5, HonestPlain(len, -5))
    [] m = "len-minus1"  -> Declared(d, len, len - 1, HonestPlain(len, len - 1))
    [] m = "len-plus1"   -> Declared(d, len, len + Pad16Of(len) + 1, HonestPlain(len, len + Pad16Of(len) + 1))
    [] m = "len-huge"    -> Declared(d, len, 100000, HonestPlain(len, 100000))
    \* ... or consistently: shorter length and msg_key over exactly header + that many bytes
    [] m = "len-short-consistent" ->
         Declared(d, len, len - 4, TSlice(HonestPlain(len, len - 4), 0, 32 + len - 4))


Init == /\ dir \in Dirs /\ n \in BodyLens /\ mut \in Mutations
        /\ (mut = "len-short-consistent" => n >= 4)
        /\ pkt = Build(dir, n, mut)
        /\ pc = "keyid" /\ dec = <<>> /\ L = 0 /\ res = [k |-> "none"]

RecvX == IF mut = "otherdir" THEN E!X(Other(dir)) ELSE E!X(dir)
Refuse(why) == pc' = "done" /\ res' = [k |-> "refused", why |-> why] /\ UNCHANGED <<dec, L>>

\* little-endian signed field of width w at offset i: [ok, v]
Field(d, i, w) ==
  LET f == TSlice(d, i, i + w) IN
  IF SLen(d) >= i + w /\ Len(f) = 1 /\ f[1][1][1] = "le" /\ f[1][1][3] = w /\ f[1][2] = 0 /\ f[1][3] = w
    THEN [ok |-> TRUE, v |-> f[1][1][2]] ELSE [ok |-> FALSE, v |-> 0]

CheckKeyId ==
  /\ pc = "keyid"
  /\ IF SLen(pkt) < 24 \/ TSlice(pkt, 0, 8) # E!KeyId(KeyOf("K")) THEN Refuse("key id")
     ELSE pc' = "decrypt" /\ UNCHANGED <<dec, L, res>>
  /\ UNCHANGED <<dir, n, mut, pkt>>
Decrypt ==
  /\ pc = "decrypt"
  /\ LET ct == TSlice(pkt, 24, SLen(pkt)) mk == TSlice(pkt, 8, 24) IN
     IF SLen(ct) = 0 \/ SLen(ct) % 16 # 0 THEN Refuse("ciphertext length")
     ELSE /\ dec' = TIgeD(E!AesKey(KeyOf("K"), mk, RecvX), E!AesIV(KeyOf("K"), mk, RecvX), ct)
          /\ pc' = "length" /\ UNCHANGED <<L, res>>
  /\ UNCHANGED <<dir, n, mut, pkt>>
CheckLength ==
  /\ pc = "length"
  /\ LET l == Field(dec, 28, 4)
         bad == ~l.ok \/ l.v < 0 \/ l.v > SLen(dec) - 32 IN
     IF SLen(dec) < 32 THEN Refuse("short")
     ELSE IF bad
       THEN IF "LengthGuardInverted" \in Dev
              THEN pc' = "done" /\ res' = [k |-> "panic"] /\ UNCHANGED <<dec, L>>       \* slice out of range
              ELSE Refuse("declared length")
       ELSE L' = l.v /\ pc' = "msgkey" /\ UNCHANGED <<dec, res>>
  /\ UNCHANGED <<dir, n, mut, pkt>>
CheckMsgKey ==
  /\ pc = "msgkey"
  /\ IF E!MsgKeyOf(TSlice(dec, 0, 32 + L)) # TSlice(pkt, 8, 24) THEN Refuse("msg_key")
     ELSE pc' = "parity" /\ UNCHANGED <<dec, L, res>>
  /\ UNCHANGED <<dir, n, mut, pkt>>
CheckParity ==
  /\ pc = "parity"
  /\ LET id == Field(dec, 16, 8) IN
     IF ~id.ok \/ id.v % 2 # 1 THEN Refuse("parity")
     ELSE /\ pc' = "done"
          /\ res' = [k |-> "accepted", salt |-> Field(dec, 0, 8).v, sid |-> Field(dec, 8, 8).v, mid |-> id.v,
                     seq |-> Field(dec, 24, 4).v, body |-> TSlice(dec, 32, 32 + L)]
          /\ UNCHANGED <<dec, L>>
  /\ UNCHANGED <<dir, n, mut, pkt>>
Done == pc = "done" /\ UNCHANGED vars
Next == CheckKeyId \/ Decrypt \/ CheckLength \/ CheckMsgKey \/ CheckParity \/ Done
Spec == Init /\ [][Next]_vars /\ WF_vars(Next)

(* ---- properties ---- *)
NeverPanics == res.k # "panic"
\* C03: an untouched packet opens to exactly the sealed fields
OpensToSealed == pc = "done" /\ mut = "none" =>
  res = [k |-> "accepted", salt |-> Salt, sid |-> Sid, mid |-> 101, seq |-> SeqNo, body |-> BodyOf(n)]
\* C04: anything altered is refused - except a consistent re-sealing by the key holder, which
\* delivers what that holder sealed
AlteredRefused == pc = "done" /\ mut \notin {"none", "len-short-consistent"} => res.k = "refused"
HolderConsistent == pc = "done" /\ mut = "len-short-consistent" =>
  res.k = "accepted" /\ res.body = TSlice(BodyOf(n), 0, n - 4) /\ res.mid = 101
PacketShape == mut = "none" => SLen(pkt) = E!PacketLen(n) /\ (SLen(pkt) - 24) % 16 = 0 /\ E!Pad16(32 + n) < 16
Terminates == <>(pc = "done")
=============================================================================
