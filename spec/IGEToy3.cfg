SPECIFICATION Spec
CONSTANTS MaxBlocks = 3
 Dev = {}
INVARIANTS InputUntouched MatchesDefinition DefinitionInverts
PROPERTY Terminates
