CONSTANTS BlockCounts = {1, 2, 3, 4, 5, 6, 7, 8, 16, 64}
 MaxPayload = 200
