SPECIFICATION Spec
CONSTANTS MaxMsgs = 2
 Dev = {}
INVARIANTS DeliveredIsPrefixOfSent ModeDetected EofIsEof ErrOnlyMidFrame
PROPERTY AllDeliveredAtEof
