---------------------------- MODULE MsgIds ----------------------------
(* The numbering of outgoing messages (network.go: sendPacket, nextMsgID; mtproto.go: Reconnect) over
   UNBOUNDED integers: the clock is any integer at any moment (it may stand still, jump, go back - also what hook
   H6 VerifClock does), any number of messages, any interleaving of the callers around the send lock.

   Client.tla checks the same rules with TLC inside small bounds together with everything else the session engine
   does. This module isolates the numbering so that the rules can be discharged for every clock value and every
   length of history: IndInv is an inductive invariant, checked by Apalache in three steps
       Init => IndInv                        (apalache-mc check --init=Init    --inv=IndInv --length=0)
       IndInv /\ Next => IndInv'             (apalache-mc check --init=IndInit --inv=IndInv --length=1)
       IndInv => Safety                      (apalache-mc check --init=IndInit --inv=Safety --length=0)
   and by TLC on a finite window of clock values (MsgIds.cfg), where each deviation must produce a counterexample.

   One action per critical section of the code:
     Lock(c)     m.seqNoMutex.Lock() in sendPacket
     GenId(c)    nextMsgID(): id from the clock, or lastMsgID + 4 when the clock is not ahead
     Write(c,k)  transport.WriteMsg: the frame carries the id and seq_no = seqNo (+1 when content related);
                 m.seqNo += 2; unlock
     WriteFail(c) the write failed: nothing reaches the wire, the lock is released (deferred Unlock), seqNo stays
     Reconnect   Disconnect + CreateConnection with the stored key: the session continues, counters are kept
     Tick        the clock takes any value

   Deviations (each found in the original tree or in a seeded change; each must break Safety):
     GenIdOutsideLock   id taken before the lock (fix 1621a2c)
     ReturnNotStore     nextMsgID returns lastMsgID+4 without remembering it (seeded C10_3)
     SeqResetOnReconnect  seq_no restarts at 0 on a reconnect (seeded C10_6)
     SeqFromSnapshot    seq_no taken before the lock (seeded C10_1)
   Ids are counted in units of 4 * 2^-32 s: id = 4 * t, so divisibility by four is by construction of the unit and
   is bound separately (ClientTrace checks mod 4 on the recorded stream). *)
EXTENDS Integers

CONSTANTS
  \* @type: Set(Str);
  Callers,
  \* @type: Set(Str);
  Dev

VARIABLES
  \* @type: Int;
  clock,
  \* @type: Int;
  lastId,
  \* @type: Int;
  seqNo,
  \* @type: Str;
  lock,
  \* @type: Str -> Str;
  pc,
  \* @type: Str -> Int;
  cur,
  \* @type: Str -> Int;
  snap,
  \* @type: Int;
  wId,
  \* @type: Int;
  wSeq,
  \* @type: Int;
  pId,
  \* @type: Int;
  pSeq,
  \* @type: Bool;
  pContent,
  \* @type: Int;
  n

vars == <<clock, lastId, seqNo, lock, pc, cur, snap, wId, wSeq, pId, pSeq, pContent, n>>

ClockVals == Int          \* TLC: overridden by a finite window (MsgIds.cfg)
Outside == "GenIdOutsideLock" \in Dev

ConstInit == Callers = {"a", "b", "c"} /\ Dev = {}

Init ==
  /\ clock \in ClockVals /\ lastId = 0 /\ seqNo = 0 /\ lock = "none"
  /\ pc = [c \in Callers |-> "idle"] /\ cur = [c \in Callers |-> 0] /\ snap = [c \in Callers |-> 0]
  /\ wId = 0 /\ wSeq = 0 /\ pId = 0 /\ pSeq = 0 /\ pContent = FALSE /\ n = 0

Tick == /\ clock' \in ClockVals
        /\ UNCHANGED <<lastId, seqNo, lock, pc, cur, snap, wId, wSeq, pId, pSeq, pContent, n>>

Fresh == IF clock > lastId THEN clock ELSE lastId + 1

Lock(c) ==
  /\ lock = "none"
  /\ \/ ~Outside /\ pc[c] = "idle" /\ pc' = [pc EXCEPT ![c] = "locked"]
     \/ Outside /\ pc[c] = "early" /\ pc' = [pc EXCEPT ![c] = "gen"]
  /\ lock' = c
  /\ snap' = IF "SeqFromSnapshot" \in Dev THEN snap ELSE [snap EXCEPT ![c] = seqNo]
  /\ UNCHANGED <<clock, lastId, seqNo, cur, wId, wSeq, pId, pSeq, pContent, n>>

\* as specified: under the lock
GenId(c) ==
  /\ ~Outside /\ pc[c] = "locked" /\ lock = c
  /\ cur' = [cur EXCEPT ![c] = Fresh]
  /\ lastId' = IF "ReturnNotStore" \in Dev /\ clock <= lastId THEN lastId ELSE Fresh
  /\ pc' = [pc EXCEPT ![c] = "gen"]
  /\ UNCHANGED <<clock, seqNo, lock, snap, wId, wSeq, pId, pSeq, pContent, n>>

\* as once coded: before the lock, the bare clock value
GenIdEarly(c) ==
  /\ Outside /\ pc[c] = "idle"
  /\ cur' = [cur EXCEPT ![c] = clock]
  /\ lastId' = IF clock > lastId THEN clock ELSE lastId
  /\ pc' = [pc EXCEPT ![c] = "early"]
  /\ snap' = IF "SeqFromSnapshot" \in Dev THEN [snap EXCEPT ![c] = seqNo] ELSE snap
  /\ UNCHANGED <<clock, seqNo, lock, wId, wSeq, pId, pSeq, pContent, n>>

\* the deviation SeqFromSnapshot reads the counter when the message object is built, before the lock
Snapshot(c) ==
  /\ "SeqFromSnapshot" \in Dev /\ ~Outside /\ pc[c] = "idle" /\ snap[c] # seqNo
  /\ snap' = [snap EXCEPT ![c] = seqNo]
  /\ UNCHANGED <<clock, lastId, seqNo, lock, pc, cur, wId, wSeq, pId, pSeq, pContent, n>>

Write(c, content) ==
  /\ pc[c] = "gen" /\ lock = c
  /\ pId' = wId /\ pSeq' = wSeq
  /\ wId' = cur[c] /\ wSeq' = snap[c] + (IF content THEN 1 ELSE 0) /\ pContent' = content
  /\ seqNo' = seqNo + 2 /\ n' = n + 1
  /\ lock' = "none" /\ pc' = [pc EXCEPT ![c] = "idle"]
  /\ UNCHANGED <<clock, lastId, cur, snap>>

WriteFail(c) ==
  /\ pc[c] = "gen" /\ lock = c
  /\ lock' = "none" /\ pc' = [pc EXCEPT ![c] = "idle"]
  /\ UNCHANGED <<clock, lastId, seqNo, cur, snap, wId, wSeq, pId, pSeq, pContent, n>>

Reconnect ==
  /\ lock = "none"
  /\ seqNo' = IF "SeqResetOnReconnect" \in Dev THEN 0 ELSE seqNo
  /\ UNCHANGED <<clock, lastId, lock, pc, cur, snap, wId, wSeq, pId, pSeq, pContent, n>>

Next ==
  \/ Tick \/ Reconnect
  \/ \E c \in Callers : Lock(c) \/ GenId(c) \/ GenIdEarly(c) \/ Snapshot(c) \/ WriteFail(c)
  \/ \E c \in Callers : \E k \in BOOLEAN : Write(c, k)

Spec == Init /\ [][Next]_vars

(* ---------------- what a conformant server demands of two neighbours on the wire ---------------- *)
Safety ==
  /\ n >= 2 => (wId > pId /\ wSeq >= pSeq)
  /\ n >= 1 => (wSeq % 2 = (IF pContent THEN 1 ELSE 0))

(* ---------------- the inductive invariant (Dev = {}) ---------------- *)
TypeOK ==
  /\ clock \in Int /\ lastId \in Int /\ seqNo \in Int /\ lock \in Callers \cup {"none"}
  /\ pc \in [Callers -> {"idle", "locked", "gen"}]
  /\ cur \in [Callers -> Int] /\ snap \in [Callers -> Int]
  /\ wId \in Int /\ wSeq \in Int /\ pId \in Int /\ pSeq \in Int /\ pContent \in BOOLEAN /\ n \in Int

IndInv ==
  /\ TypeOK
  /\ n >= 0 /\ seqNo >= 0 /\ seqNo % 2 = 0
  /\ \A c \in Callers : pc[c] # "idle" <=> lock = c                 \* the lock is held exactly by the one caller inside
  /\ \A c \in Callers : pc[c] # "idle" => snap[c] = seqNo            \* nobody else moves the counter meanwhile
  /\ \A c \in Callers : pc[c] = "gen" => (cur[c] = lastId /\ (n >= 1 => cur[c] > wId))
  /\ n >= 1 => (wId <= lastId /\ wSeq < seqNo /\ wSeq >= 0)
  /\ n = 0 => (wSeq = 0 /\ pSeq = 0)
  /\ n = 1 => pSeq = 0
  /\ Safety

IndInit == IndInv

(* ---------------- TLC: a finite window ---------------- *)
SmallClock == 0..3
Bounded == n <= 4 /\ lastId <= 7 /\ seqNo <= 10
=============================================================================
