SPECIFICATION Spec
CONSTANTS Callers = {c1, c2}
 MaxTick = 2
 MaxRot = 1
 MaxAtt = 2
 FreshKey = FALSE
 MaxJunk = 2
 MaxClose = 0
 MaxBad = 0
 Kinds = {"obj"}
 Dev = {"NoAckForUnknownResult"}
INVARIANTS WireIdsIncrease SeqNoRules OwnResult AcceptedNeverResent SaltPersisted NoStallNotify NoStallDeliver AckedAll

VIEW view
