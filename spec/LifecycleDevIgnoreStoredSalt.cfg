SPECIFICATION Spec
CONSTANTS MaxRot = 2
 MaxStarts = 3
 MaxCalls = 4
 Dev = {"IgnoreStoredSalt"}
INVARIANTS OneKey StoreHoldsKey SaltStored
PROPERTIES ResumeFromStore
