---------------------------- MODULE SchemaDefs ----------------------------
(* Shared reading of a lexed TL schema (used by SchemaXlate - C13 - and TLCodecGen - C01/C02/C15).

   Input (IOEnv): VERIF_SCHEMA - the definitions of the shipped .tl files as lexed by the
   harness's own lexer (tokens and code points, no interpretation); VERIF_REGISTRY - the
   constructor registry of the binary built from the working tree, by reflection.

   This module holds the interpretation: Canon(line) and its CRC-32 (the constructor id a
   definition must carry), T(def) - the field layout a translation must declare (order, kind,
   vector marker, conditional bit, position of the flags word, enum vs struct), and
   Faithful - every definition in scope has exactly one registered type equal to T(def) and
   nothing else is registered.  Disagreements are written to IOEnv.VERIF_OUT. *)
EXTENDS Integers, Sequences, FiniteSets, TLC, Json, IOUtils, Bitwise, Folds, Functions, SequencesExt

Schema == JsonDeserialize(IOEnv.VERIF_SCHEMA)

(* ---------------- CRC-32 (IEEE, reflected) on 16-bit halves <<hi, lo>> ---------------- *)
PolyHi == 60856  \* 0xEDB8
PolyLo == 33568  \* 0x8320
Shr1(c) == <<shiftR(c[1], 1), shiftR(c[2], 1) + (c[1] % 2) * 32768>>
X2(a, b) == <<a[1] ^^ b[1], a[2] ^^ b[2]>>
RECURSIVE Step8(_, _)
Step8(c, k) == IF k = 0 THEN c ELSE Step8(IF c[2] % 2 = 1 THEN X2(Shr1(c), <<PolyHi, PolyLo>>) ELSE Shr1(c), k - 1)
CrcTable == [b \in 0..255 |-> Step8(<<0, b>>, 8)]
Shr8(c) == <<shiftR(c[1], 8), shiftR(c[2], 8) + (c[1] % 256) * 256>>
Crc32(bytes) == X2(FoldLeft(LAMBDA c, b : X2(CrcTable[(c[2] ^^ b) % 256], Shr8(c)), <<65535, 65535>>, bytes), <<65535, 65535>>)

(* ---------------- canonical form of a definition line ---------------- *)
SP == 32  HASH == 35  LT == 60  GT == 62  LBR == 123  RBR == 125
RECURSIVE SplitAt(_, _)
SplitAt(s, sep) ==   \* s cut at every occurrence of the code point sep
  IF \A k \in 1..Len(s) : s[k] # sep THEN <<s>>
  ELSE LET k == CHOOSE j \in 1..Len(s) : s[j] = sep /\ \A m \in 1..(j - 1) : s[m] # sep
       IN <<SubSeq(s, 1, k - 1)>> \o SplitAt(SubSeq(s, k + 1, Len(s)), sep)
EndsWith(s, suf) == Len(s) >= Len(suf) /\ SubSeq(s, Len(s) - Len(suf) + 1, Len(s)) = suf
HasSub(s, sub) == \E k \in 1..(Len(s) - Len(sub) + 1) : SubSeq(s, k, k + Len(sub) - 1) = sub
Cp(str) ==  \* code points of the few literal strings the rules mention
  CASE str = "?true" -> <<63, 116, 114, 117, 101>>
    [] str = ":flags." -> <<58, 102, 108, 97, 103, 115, 46>>
    [] str = ":bytes" -> <<58, 98, 121, 116, 101, 115>>
    [] str = "?bytes" -> <<63, 98, 121, 116, 101, 115>>
    [] str = ":string" -> <<58, 115, 116, 114, 105, 110, 103>>
    [] str = "?string" -> <<63, 115, 116, 114, 105, 110, 103>>
IsTrueFlag(w) == HasSub(w, Cp(":flags.")) /\ EndsWith(w, Cp("?true"))
FixBytes(w) == IF EndsWith(w, Cp(":bytes")) THEN SubSeq(w, 1, Len(w) - 6) \o Cp(":string")
               ELSE IF EndsWith(w, Cp("?bytes")) THEN SubSeq(w, 1, Len(w) - 6) \o Cp("?string") ELSE w
FixChars(w) == FoldLeft(LAMBDA acc, c : IF c = LT THEN Append(acc, SP) ELSE IF c \in {GT, LBR, RBR} THEN acc ELSE Append(acc, c), <<>>, w)
DropId(w) == IF \E k \in 1..Len(w) : w[k] = HASH THEN SubSeq(w, 1, (CHOOSE k \in 1..Len(w) : w[k] = HASH /\ \A m \in 1..(k - 1) : w[m] # HASH) - 1) ELSE w
Join(ws) == FoldLeft(LAMBDA acc, w : IF acc = <<>> THEN w ELSE acc \o <<SP>> \o w, <<>>, ws)
\* name params = Type, without the #id, without flags.N?true parameters, bytes written as
\* string, '<' as a space, '>' '{' '}' dropped
Canon(text) ==
  LET ws == SelectSeq(SplitAt(text, SP), LAMBDA w : w # <<>>)
      kept == SelectSeq([k \in 1..Len(ws) |-> IF k = 1 THEN DropId(ws[k]) ELSE ws[k]], LAMBDA w : ~IsTrueFlag(w))
  IN Join([k \in 1..Len(kept) |-> FixChars(FixBytes(kept[k]))])

(* ---------------- T(def): the layout a translation must declare ---------------- *)
Defs == {k \in 1..Len(Schema) : Schema[k].idhex # ""}
ResultOf(k) == Schema[k].resultbase
\* a boxed type all of whose constructors are parameterless is translated into an enum
TypeCtors(t) == {k \in Defs : Schema[k].section = "types" /\ Schema[k].result = t}
IsEnumType(t) == TypeCtors(t) # {} /\ \A k \in TypeCtors(t) : Len(Schema[k].params) = 0
IsEnumCtor(k) == Schema[k].section = "types" /\ IsEnumType(Schema[k].result)

ParamKind(p) ==
  CASE p.base \in {"int", "long", "double", "string", "bytes", "true", "int128", "int256"} -> p.base
    [] p.base = "Bool" -> "bool"
    [] p.base = "#" -> "flags"
    [] p.boxed /\ IsEnumType(p.base) -> "enum"
    [] OTHER -> "object"
DataParams(k) == SelectSeq(Schema[k].params, LAMBDA p : p.base # "#")
FlagsIndex(k) == IF \E j \in 1..Len(Schema[k].params) : Schema[k].params[j].base = "#"
                 THEN (CHOOSE j \in 1..Len(Schema[k].params) : Schema[k].params[j].base = "#") - 1 ELSE -1
T(k) == [flagidx |-> FlagsIndex(k),
         fields |-> [j \in 1..Len(DataParams(k)) |->
                       LET p == DataParams(k)[j] IN [kind |-> ParamKind(p), vec |-> p.vec \/ p.barevec, bit |-> p.bit]]]
=============================================================================
