SPECIFICATION Spec
CONSTANTS
  Callers = {"a", "b"}
  Dev = {"SeqFromSnapshot"}
  ClockVals <- SmallClock
CONSTRAINT Bounded
INVARIANTS Safety
CHECK_DEADLOCK FALSE
