---------------------------- MODULE Provenance ----------------------------
(* C19 - where secrets come from, as reachability over the call graph of the working tree.

   Input (IOEnv.VERIF_GRAPH): the RTA call graph extracted with `callgraph` from a two-line main
   that calls the public entry points, reduced to edges whose caller is first-party code
   (xelaj/mtproto and its helper library go-dry); every node carries a class:
       fp     first-party function          os    crypto/rand.*  (the OS source)
       prng   math/rand.*                   clock time.Now       lib   any other library function
   Library nodes are leaves: the *cone* of a function is what it reaches through first-party nodes
   only (the unrestricted closure reaches everything and says nothing).

   Findings (written to IOEnv.VERIF_OUT):
     prng-under-secret-path   a first-party function in the cone of the key exchange or of the SRP
                              answer - not entered through a whitelisted function - calls math/rand
     secret-not-from-os       a secret producer (nonce, new_nonce, DH exponent, SRP ephemeral) has
                              no crypto/rand call in its cone, or is not reached from its entry point
     reseed-with-secrets      creating a client reseeds math/rand while secrets depend on it *)
EXTENDS Integers, Sequences, FiniteSets, TLC, Json, IOUtils, SequencesExt

G == JsonDeserialize(IOEnv.VERIF_GRAPH)
Nodes == DOMAIN G.class
Class(n) == G.class[n]
Succ(n) == IF n \in DOMAIN G.succ THEN {G.succ[n][k] : k \in 1..Len(G.succ[n])} ELSE {}

\* not entered: their own randomness is not a secret (factorisation trials, padding bytes)
Whitelist == {n \in Nodes : \E k \in 1..Len(G.whitelist) : G.whitelist[k] = n}

RECURSIVE Reach(_, _, _)
\* nodes reachable from the frontier F through first-party nodes, never entering a node of Stop
Reach(F, Seen, Stop) ==
  IF F = {} THEN Seen
  ELSE LET new == (UNION {Succ(n) : n \in {m \in F : Class(m) = "fp"}}) \ (Seen \cup Stop)
       IN Reach(new, Seen \cup new, Stop)
Cone(n, Stop) == Reach({n}, {n}, Stop)

Entry(k) == G.entries[k]
SecretEntries == {Entry("handshake"), Entry("srp")} \cap Nodes
SecretCone == UNION {Cone(e, Whitelist) : e \in SecretEntries}
PrngCallers == {n \in SecretCone : Class(n) = "fp" /\ \E s \in Succ(n) : Class(s) = "prng"}

Producers == {G.producers[k].fn : k \in 1..Len(G.producers)}
ProducerEntry(f) == LET k == CHOOSE j \in 1..Len(G.producers) : G.producers[j].fn = f IN Entry(G.producers[k].entry)
ProducerOK(f) == /\ f \in Nodes
                 /\ ProducerEntry(f) \in Nodes /\ f \in Cone(ProducerEntry(f), {})
                 /\ \E s \in Cone(f, Whitelist) : Class(s) = "os"
                 /\ ~\E s \in Cone(f, Whitelist) : Class(s) = "prng"

Reseeds == {n \in Cone(Entry("new"), {}) : Class(n) = "prng" /\ n = "math/rand.Seed"}

SetToSeqS(S) == SetToSeq(S)
Findings ==
     [j \in 1..Cardinality(PrngCallers) |-> [kind |-> "prng-under-secret-path", fn |-> SetToSeqS(PrngCallers)[j]]]
  \o LET bad == {f \in Producers : ~ProducerOK(f)} IN [j \in 1..Cardinality(bad) |-> [kind |-> "secret-not-from-os", fn |-> SetToSeqS(bad)[j]]]
  \o (IF Reseeds # {} /\ (PrngCallers # {} \/ \E f \in Producers : ~ProducerOK(f))
        THEN <<[kind |-> "reseed-with-secrets", fn |-> Entry("new")]>> ELSE <<>>)

ASSUME ndJsonSerialize(IOEnv.VERIF_OUT, Findings)
ASSUME PrintT(<<"nodes", Cardinality(Nodes), "secret cone", Cardinality(SecretCone), "findings", Len(Findings)>>)
=============================================================================
