SPECIFICATION Spec
CONSTANT Dev = {}
INVARIANTS RightAccepted WrongRejected EmptyIsNoPassword InvalidBRefused
PROPERTY Decides
