SPECIFICATION Spec
CONSTANTS Callers = {c1, c2}
 MaxTick = 3
 MaxRot = 2
 MaxAtt = 3
 FreshKey = FALSE
 Dev = {}
INVARIANTS WireIdsIncrease SeqNoRules OwnResult AcceptedNeverResent SaltPersisted NoStallNotify NoStallDeliver
PROPERTIES AllDone LoopKeepsReading
VIEW view
