---------------------------- MODULE SRPGen ----------------------------
(* C18 - term instance: the *server side* of Telegram's SRP as symbolic terms over named inputs, for
   the real 2048-bit group, and the case set.  The harness binds the inputs (password, salts, the
   server secret b, the client's answer A and M1), interprets the terms with math/big, SHA-256 and
   PBKDF2-HMAC-SHA512, and checks the relation the case states.

     PH1 = SH(SH(password, salt1), salt2)          SH(d, s) = H(s | d | s),  H = SHA-256
     x   = PH2 = SH(PBKDF2(PH1, salt1, 100000, 64), salt2)
     v   = g^x mod p          k = H(p | pad(g))
     B   = (k*v + g^b) mod p                       \* what the server sends (srp_B, 256 bytes)
     u   = H(pad(A) | pad(B))
     S   = (A * v^u)^b mod p  K = H(pad(S))
     M1' = H(H(p) xor H(pad(g)) | H(salt1) | H(salt2) | pad(A) | pad(B) | K)        accept iff M1 = M1' *)
EXTENDS Terms, TLC, Json, IOUtils, FiniteSets, SequencesExt
CONSTANT MaxLZ

H(x) == Sha256(x)
SH(d, s) == H(CatSeq(<<s, d, s>>))
PH1 == SH(SH(Var("password"), Var("salt1")), Var("salt2"))
PH2 == SH(Pbkdf2Sha512(PH1, Var("salt1"), 100000, 64), Var("salt2"))
Pp == IntBE(Var("p"))
Gg == Var("g")
Pad(n) == BE(256, n)
X == IntBE(PH2)
Vv == ModExp(Gg, X, Pp)
Kk == IntBE(H(Cat2(Var("p"), Pad(Gg))))
Bb == Mod(Add(Mul(Kk, Var("v")), ModExp(Gg, Var("b"), Pp)), Pp)
Aa == IntBE(Var("A"))
Uu == IntBE(H(Cat2(Pad(Aa), Pad(Var("B")))))
Ss == ModExp(Mod(Mul(Aa, ModExp(Var("v"), Uu, Pp)), Pp), Var("b"), Pp)
M1 == H(CatSeq(<<XorT(H(Var("p")), H(Pad(Gg))), H(Var("salt1")), H(Var("salt2")), Pad(Aa), Pad(Var("B")), H(Pad(Ss))>>))

Defs == << <<"v", Vv>>, <<"B", Bb>> >>                \* evaluated before the client is called
\* leading-zero corners and password / salt classes
Corners == {"none", "A", "B", "S"}
\* "spaced": white space (ASCII and Unicode) at both ends belongs to the password; "blank": nothing but white space
PwClasses == {"ascii", "multibyte", "long", "huge", "spaced", "blank"}     \* "huge": longer than any fixed-size scratch buffer (1.5 KiB)
SaltLens == {0, 8, 32, 64, 600}
\* the group is a parameter the server sends with every request: Telegram's prime with several generators, and another
\* 2048-bit safe prime (RFC 3526 group 14) with the same generators - nothing computed for one group may be used for another
Groups == {"tg:3", "tg:2", "tg:7", "rfc3526:3", "rfc3526:2"}
Case(c, lz, pw, s1, s2, grp) == [kind |-> "right-and-wrong", corner |-> c, lz |-> lz, pw |-> pw, salt1 |-> s1, salt2 |-> s2, group |-> grp,
                                 defs |-> Defs, m1 |-> M1, s |-> Ss]
BadB == {"zero", "p", "p+1", "short", "long"}
Cases == SetToSeq({Case(c, IF c = "none" THEN 0 ELSE 1, pw, s1, s2, "tg:3") : c \in Corners, pw \in PwClasses, s1 \in {8, 32}, s2 \in {8}}
                  \cup {Case("none", 0, "ascii", s1, s2, "tg:3") : s1 \in SaltLens, s2 \in SaltLens}
                  \cup {Case("none", 0, pw, 8, 8, grp) : pw \in {"ascii", "multibyte"}, grp \in Groups}
                  \cup {Case(c, 1, "ascii", 8, 8, grp) : c \in {"A", "B", "S"}, grp \in {"rfc3526:3", "tg:2"}}
                  \cup {Case(c, 2, "ascii", 8, 8, "tg:3") : c \in IF MaxLZ >= 2 THEN {"A", "B", "S"} ELSE {"B"}})
         \o SetToSeq({[kind |-> "bad-B", b |-> x, defs |-> Defs] : x \in BadB})
         \o <<[kind |-> "empty-password", defs |-> Defs]>>
ASSUME ndJsonSerialize(IOEnv.VERIF_OUT, Cases)
=============================================================================
