---------------------------- MODULE Client ----------------------------
(* Design-level specification of the session engine of xelaj/mtproto (mtproto.go, network.go):
   callers, the send path, the response table, the receive loop, a conformant server with
   salt rotation.  One action per critical section / linearisation point of the code.

   Callers     Begin -> GenId -> Register -> Write -> (wait) -> Wake -> done | retry
   Server      SrvRecv (accepts a frame whose salt is current, otherwise answers
               bad_server_salt naming it), SrvAnswer (any set of accepted requests, as one
               message = a container when more than one), SrvRotate
   Loop        LoopRead (takes the next server message), LoopStep (handles its next item:
               a result is handed to the caller registered for req_msg_id - a rendezvous, the
               loop blocks until that caller takes it -, a bad_server_salt adopts and persists
               the salt and tells the waiter(s) to retry), LoopAck (acknowledgement through the
               same send path)

   Deviations (Dev), each an as-coded behaviour found in the original tree:
     GenIdOutsideLock      msg_id taken and the waiter registered before the send lock
     NotifyAllOnBadSalt    every registered waiter is told to retry, not only the rejected one
     StaleEntryAfterNotify the table entry of a notified waiter is kept
     AbortContainerOnItemError  an item of a container the loop cannot process (a result nobody waits for,
                           an unreadable object) ends the processing of the container: later items are lost
     NoAckForUnknownResult a result nobody waits for is not acknowledged
     DieOnEof              the receive loop ends when the server closes the connection
     HintKeyedByServerId   the element-type hint of a vector result is looked up under the server's msg_id
     NoHintInsideGzip      the hint does not reach a result that travels gzip-packed
     CleanupLastIdOnEncodeFail  a call that fails before it has an id (its request cannot be serialised) "cleans up" the
                           table entry of the newest id - another caller's (seeded change C09_14)
   With Dev = {} the properties below hold (checked by TLC); each deviation alone breaks one.

   The same module generates schedules for the harness: `hist` records the controllable
   steps (caller start / release at the send gate, server answers, rotations). *)
EXTENDS Integers, Sequences, FiniteSets, TLC

CONSTANTS Callers, MaxTick, MaxRot, MaxAtt, FreshKey, Dev,
          MaxJunk,  \* how many items nobody waits for the server may put into its answers
          MaxClose, \* how many times the server may close the connection (orderly, at a moment when no request is being sent)
          MaxBad,   \* how many calls the application may make whose request cannot be serialised (they fail at once)
          Kinds     \* result kinds callers may ask for: "obj" (self-describing) and/or "vec" (a bare vector: the decoder
                    \* needs the element type the request registered - the hint)

VARIABLES clock, lastId,
          pc, mid, att, got,      \* per caller
          lock,                   \* holder of the send lock ("none", a caller or "loop")
          seqNo, tab,             \* tab: msg id -> channel (<<caller, attempt>> or the service channel)
          c2s, srvNext, srvSalt, srvAcc, srvDone,
          s2c, loop, salt, store,
          junk,                   \* number of junk items sent so far
          nCont,                  \* content-related server messages the loop has finished with
          kind,                   \* per caller: result kind of its request
          hint,                   \* request ids for which an element-type hint is registered
          epoch, cconn,           \* the server's current connection number; the connection the client is on
          nBad,                   \* calls that failed at serialisation so far
          hist
vars == <<clock, lastId, pc, mid, att, got, lock, seqNo, tab, c2s, srvNext, srvSalt, srvAcc, srvDone, s2c, loop, salt, store, junk, nCont, kind, hint, epoch, cconn, nBad, hist>>
view == <<clock, lastId, pc, mid, att, got, lock, seqNo, tab, c2s, srvNext, srvSalt, srvAcc, srvDone, s2c, loop, salt, store, junk, nCont, kind, hint, epoch, cconn, nBad>>
aux == <<junk, nCont, kind, hint, epoch, cconn, nBad>>

None == [t |-> "none"]
GzChoices == IF "vec" \in Kinds THEN BOOLEAN ELSE {FALSE}     \* gzip only matters for the decoder's hints
Chan(c) == <<c, att[c]>>
SvcChan == <<"svc", 0>>
Outside == "GenIdOutsideLock" \in Dev

Init ==
  /\ clock = 1 /\ lastId = 0
  /\ pc = [c \in Callers |-> "idle"] /\ mid = [c \in Callers |-> 0] /\ att = [c \in Callers |-> 1]
  /\ got = [c \in Callers |-> None]
  /\ lock = "none" /\ seqNo = 0
  \* after a key exchange in this process the handshake requests have left entries that point at
  \* the shared service channel (nobody reads it any more)
  /\ tab = IF FreshKey THEN (-1 :> SvcChan) ELSE <<>>
  /\ c2s = <<>> /\ srvNext = 1 /\ srvSalt = 0 /\ srvAcc = {} /\ srvDone = {}
  /\ s2c = <<>> /\ loop = [pc |-> "read"] /\ salt = 0 /\ store = 0
  /\ junk = 0 /\ nCont = 0
  /\ kind \in [Callers -> Kinds] /\ hint = {}
  /\ epoch = 1 /\ cconn = 1 /\ nBad = 0
  /\ hist = <<>>

Tick == clock < MaxTick /\ clock' = clock + 1
        /\ UNCHANGED aux /\ UNCHANGED <<lastId, pc, mid, att, got, lock, seqNo, tab, c2s, srvNext, srvSalt, srvAcc, srvDone, s2c, loop, salt, store, hist>>

(* ---------------- callers: the send path ---------------- *)
FreshId == IF clock > lastId THEN clock ELSE lastId + 1          \* strictly above everything issued
Begin(c) ==   \* take the send lock first (as specified)
  /\ ~Outside /\ pc[c] = "idle" /\ att[c] <= MaxAtt /\ lock = "none" /\ cconn = epoch
  /\ lock' = c /\ pc' = [pc EXCEPT ![c] = "genid"]
  /\ hist' = Append(hist, [a |-> "Call", c |-> c, k |-> kind[c]])
  /\ UNCHANGED aux /\ UNCHANGED <<clock, lastId, mid, att, got, seqNo, tab, c2s, srvNext, srvSalt, srvAcc, srvDone, s2c, loop, salt, store>>
GenId(c) ==
  /\ \/ ~Outside /\ pc[c] = "genid"
     \/ Outside /\ pc[c] = "idle" /\ att[c] <= MaxAtt /\ cconn = epoch
  /\ LET id == IF Outside THEN clock ELSE FreshId IN       \* as coded: the bare clock value
     /\ mid' = [mid EXCEPT ![c] = id]
     /\ lastId' = IF id > lastId THEN id ELSE lastId
  /\ pc' = [pc EXCEPT ![c] = "reg"]
  /\ hist' = IF Outside THEN Append(hist, [a |-> "Call", c |-> c, k |-> kind[c]]) ELSE hist
  /\ UNCHANGED aux /\ UNCHANGED <<clock, att, got, lock, seqNo, tab, c2s, srvNext, srvSalt, srvAcc, srvDone, s2c, loop, salt, store>>
Register(c) ==
  /\ pc[c] = "reg"
  /\ tab' = (mid[c] :> Chan(c)) @@ tab
  /\ hint' = (IF kind[c] = "vec" THEN hint \cup {mid[c]} ELSE hint) /\ UNCHANGED <<junk, nCont, kind, epoch, cconn, nBad>>
  /\ pc' = [pc EXCEPT ![c] = IF Outside THEN "acquire" ELSE "write"]
  /\ UNCHANGED <<clock, lastId, mid, att, got, lock, seqNo, c2s, srvNext, srvSalt, srvAcc, srvDone, s2c, loop, salt, store, hist>>
Acquire(c) ==
  /\ Outside /\ pc[c] = "acquire" /\ lock = "none"
  /\ lock' = c /\ pc' = [pc EXCEPT ![c] = "write"]
  /\ UNCHANGED aux /\ UNCHANGED <<clock, lastId, mid, att, got, seqNo, tab, c2s, srvNext, srvSalt, srvAcc, srvDone, s2c, loop, salt, store, hist>>
Write(c) ==   \* write the frame, seq_no += 2, release the lock
  /\ pc[c] = "write" /\ lock = c
  /\ c2s' = Append(c2s, [id |-> mid[c], seq |-> seqNo + 1, salt |-> salt, who |-> c, kind |-> "req", rk |-> kind[c]])
  /\ seqNo' = seqNo + 2 /\ lock' = "none"
  /\ pc' = [pc EXCEPT ![c] = "wait"]
  /\ hist' = Append(hist, [a |-> "Release", c |-> c])
  /\ UNCHANGED aux /\ UNCHANGED <<clock, lastId, mid, att, got, tab, srvNext, srvSalt, srvAcc, srvDone, s2c, loop, salt, store>>
Wake(c) ==    \* the caller took a value from its channel (placed there by the loop's rendezvous)
  /\ pc[c] = "woke"
  /\ IF got[c].t = "retry"
       THEN /\ pc' = [pc EXCEPT ![c] = "idle"] /\ att' = [att EXCEPT ![c] = @ + 1] /\ got' = [got EXCEPT ![c] = None]
       ELSE /\ pc' = [pc EXCEPT ![c] = "done"] /\ UNCHANGED <<att, got>>
  /\ UNCHANGED aux /\ UNCHANGED <<clock, lastId, mid, lock, seqNo, tab, c2s, srvNext, srvSalt, srvAcc, srvDone, s2c, loop, salt, store, hist>>

\* a call whose request cannot be serialised (a required field left nil) fails before anything of the send path is touched:
\* no id, no table entry, no lock - whatever else is going on
EncodeFail ==
  /\ nBad < MaxBad /\ nBad' = nBad + 1
  /\ IF "CleanupLastIdOnEncodeFail" \in Dev /\ lastId \in DOMAIN tab
       THEN tab' = [k \in DOMAIN tab \ {lastId} |-> tab[k]] /\ hint' = hint \ {lastId}
       ELSE UNCHANGED <<tab, hint>>
  /\ hist' = Append(hist, [a |-> "BadCall"])
  /\ UNCHANGED <<junk, nCont, kind, epoch, cconn>>
  /\ UNCHANGED <<clock, lastId, pc, mid, att, got, lock, seqNo, c2s, srvNext, srvSalt, srvAcc, srvDone, s2c, loop, salt, store>>

(* ---------------- conformant server ---------------- *)
SrvRecv ==
  /\ srvNext <= Len(c2s) /\ cconn = epoch
  /\ LET m == c2s[srvNext] IN
     IF m.kind = "ack" THEN UNCHANGED <<s2c, srvAcc>>
     ELSE IF m.salt = srvSalt
       THEN srvAcc' = srvAcc \cup {m.id} /\ UNCHANGED s2c
       ELSE s2c' = Append(s2c, [t |-> "badsalt", id |-> m.id, new |-> srvSalt, content |-> FALSE]) /\ UNCHANGED srvAcc
  /\ srvNext' = srvNext + 1
  /\ UNCHANGED aux /\ UNCHANGED <<clock, lastId, pc, mid, att, got, lock, seqNo, tab, c2s, srvSalt, srvDone, loop, salt, store, hist>>
\* one message answering the requests S (a container when several); j: the container also holds an item
\* nobody waits for (id 0: a repeated or unsolicited result, an object the client cannot read)
\* gz: the results travel gzip-packed
SrvAnswer(S, j, gz) ==
  /\ (S # {} \/ j) /\ S \subseteq srvAcc /\ cconn = epoch
  /\ j => junk < MaxJunk
  /\ junk' = (IF j THEN junk + 1 ELSE junk) /\ UNCHANGED <<nCont, kind, hint, epoch, cconn, nBad>>
  /\ s2c' = Append(s2c, [t |-> "results", ids |-> S \cup (IF j THEN {0} ELSE {}), content |-> TRUE, gz |-> gz,
                        vec |-> {id \in S : \E k \in 1..Len(c2s) : c2s[k].id = id /\ c2s[k].rk = "vec"}])
  /\ srvAcc' = srvAcc \ S /\ srvDone' = srvDone \cup S
  /\ hist' = Append(hist, [a |-> "Answer", who |-> {c2s[k].who : k \in {n \in 1..Len(c2s) : c2s[n].id \in S}}, junk |-> j, gz |-> gz])
  /\ UNCHANGED <<clock, lastId, pc, mid, att, got, lock, seqNo, tab, c2s, srvNext, srvSalt, loop, salt, store>>
SrvRotate ==
  /\ srvSalt < MaxRot /\ srvSalt' = srvSalt + 1
  /\ hist' = Append(hist, [a |-> "Rotate"])
  /\ UNCHANGED aux /\ UNCHANGED <<clock, lastId, pc, mid, att, got, lock, seqNo, tab, c2s, srvNext, srvAcc, srvDone, s2c, loop, salt, store>>

\* the server closes the connection in an orderly way (after the last complete message), at a moment when no request
\* is on its way or waiting for its answer: nobody is inside the send section, everything written has been received,
\* everything accepted has been answered.  (A server learns which session a new connection belongs to from the first
\* message on it: a request left unanswered at the close would wait until the client speaks again - that is the
\* keep-alive's business, which this specification does not cover.)
Sending(c) == pc[c] \in {"genid", "reg", "acquire", "write"}
SrvClose ==
  /\ epoch - 1 < MaxClose /\ cconn = epoch /\ srvNext > Len(c2s) /\ srvAcc = {} /\ \A c \in Callers : ~Sending(c)
  /\ lock = "none" /\ loop.pc \in {"read", "items", "notify"}
  /\ epoch' = epoch + 1
  /\ s2c' = Append(s2c, [t |-> "eof"])
  /\ hist' = Append(hist, [a |-> "Close"])
  /\ UNCHANGED <<junk, nCont, kind, hint, cconn, nBad>>
  /\ UNCHANGED <<clock, lastId, pc, mid, att, got, lock, seqNo, tab, c2s, srvNext, srvSalt, srvAcc, srvDone, loop, salt, store>>

(* ---------------- receive loop ---------------- *)
Keys == DOMAIN tab
SeqOfSet(S) == CHOOSE s \in [1..Cardinality(S) -> S] : \A a, b \in DOMAIN s : a # b => s[a] # s[b]
Orders(S) == {s \in [1..Cardinality(S) -> S] : \A a, b \in DOMAIN s : a # b => s[a] # s[b]}
\* end of stream: as specified the loop connects again with the key it holds (no key exchange) and reads on;
\* DieOnEof: the loop ends (a panic, or a return without reconnecting)
LoopEof ==
  /\ loop.pc = "read" /\ s2c # <<>> /\ Head(s2c).t = "eof"
  /\ s2c' = Tail(s2c)
  /\ loop' = IF "DieOnEof" \in Dev THEN [pc |-> "dead"] ELSE [pc |-> "reconnect"]
  /\ UNCHANGED aux
  /\ UNCHANGED <<clock, lastId, pc, mid, att, got, lock, seqNo, tab, c2s, srvNext, srvSalt, srvAcc, srvDone, salt, store, hist>>
LoopReconnect ==
  /\ loop.pc = "reconnect"
  /\ cconn' = epoch /\ loop' = [pc |-> "read"]
  /\ UNCHANGED <<junk, nCont, kind, hint, epoch, nBad>>
  /\ UNCHANGED <<clock, lastId, pc, mid, att, got, lock, seqNo, tab, c2s, srvNext, srvSalt, srvAcc, srvDone, s2c, salt, store, hist>>
LoopRead ==
  /\ loop.pc = "read" /\ s2c # <<>> /\ Head(s2c).t # "eof"
  /\ LET m == Head(s2c) IN
     /\ s2c' = Tail(s2c)
     /\ IF m.t = "results"
          THEN /\ \E o \in Orders(m.ids) : loop' = [pc |-> "items", todo |-> o, ack |-> m.content, content |-> m.content, vec |-> m.vec, gz |-> m.gz]
               /\ UNCHANGED <<salt, store>>
          ELSE \* bad_server_salt: adopt and persist the salt, then tell waiter(s) to retry
               /\ salt' = m.new /\ store' = m.new
               /\ IF "NotifyAllOnBadSalt" \in Dev
                    THEN \E o \in Orders(Keys) : loop' = [pc |-> "notify", todo |-> o, ack |-> FALSE, content |-> FALSE, vec |-> {}, gz |-> FALSE]
                    ELSE loop' = [pc |-> "notify", todo |-> IF m.id \in Keys THEN <<m.id>> ELSE <<>>, ack |-> FALSE, content |-> FALSE, vec |-> {}, gz |-> FALSE]
  /\ UNCHANGED aux /\ UNCHANGED <<clock, lastId, pc, mid, att, got, lock, seqNo, tab, c2s, srvNext, srvSalt, srvAcc, srvDone, hist>>
ReaderOf(ch) == {c \in Callers : pc[c] = "wait" /\ Chan(c) = ch}
\* hand a result to the caller registered for the request id and forget the entry; a result nobody is
\* registered for is dropped (as specified) - the loop never blocks on it
\* can the loop decode the result for request id?  An object describes itself; a bare vector needs the hint
\* registered under the *request's* id, also when the result travels gzip-packed
Decodable(id) ==
  \/ id \notin loop.vec
  \/ /\ id \in hint
     /\ "HintKeyedByServerId" \notin Dev            \* as coded: looked up under the server's own msg_id - never there
     /\ ~("NoHintInsideGzip" \in Dev /\ loop.gz)      \* as coded: the hints did not reach the object inside gzip_packed
LoopDeliver ==
  /\ loop.pc = "items" /\ loop.todo # <<>>
  /\ LET id == Head(loop.todo) IN
     IF id \in Keys /\ ~Decodable(id)
       THEN \* a vector the decoder cannot type: as coded the receive goroutine dies
            /\ loop' = [loop EXCEPT !.pc = "dead"]
            /\ UNCHANGED <<got, pc, tab, hint>>
       ELSE
     /\ IF id \in Keys
          THEN /\ \E c \in ReaderOf(tab[id]) :
                    /\ got' = [got EXCEPT ![c] = [t |-> "result", id |-> id, rk |-> IF id \in loop.vec THEN "vec" ELSE "obj"]]
                    /\ pc' = [pc EXCEPT ![c] = "woke"]
               /\ tab' = [k \in Keys \ {id} |-> tab[k]]
               /\ hint' = hint \ {id}
          ELSE UNCHANGED <<got, pc, tab, hint>>
     /\ loop' = IF id \in Keys THEN [loop EXCEPT !.todo = Tail(@)]
                \* as coded: the error of one item ends the processing of the whole container
                ELSE IF "AbortContainerOnItemError" \in Dev THEN [loop EXCEPT !.todo = <<>>, !.ack = FALSE]
                \* as coded: a result nobody waits for is an error before the acknowledgement is sent
                ELSE IF "NoAckForUnknownResult" \in Dev THEN [loop EXCEPT !.todo = Tail(@), !.ack = FALSE]
                ELSE [loop EXCEPT !.todo = Tail(@)]
  /\ UNCHANGED <<junk, nCont, kind, epoch, cconn, nBad>>
  /\ UNCHANGED <<clock, lastId, mid, att, lock, seqNo, c2s, srvNext, srvSalt, srvAcc, srvDone, s2c, salt, store, hist>>
LoopNotify ==
  /\ loop.pc = "notify" /\ loop.todo # <<>>
  /\ LET k == Head(loop.todo) IN
     /\ \E c \in ReaderOf(tab[k]) :
          /\ got' = [got EXCEPT ![c] = [t |-> "retry"]]
          /\ pc' = [pc EXCEPT ![c] = "woke"]
     /\ tab' = IF "StaleEntryAfterNotify" \in Dev THEN tab ELSE [j \in Keys \ {k} |-> tab[j]]
     /\ hint' = IF "StaleEntryAfterNotify" \in Dev THEN hint ELSE hint \ {k}
  /\ loop' = [loop EXCEPT !.todo = Tail(@)]
  /\ UNCHANGED <<junk, nCont, kind, epoch, cconn, nBad>> /\ UNCHANGED <<clock, lastId, mid, att, lock, seqNo, c2s, srvNext, srvSalt, srvAcc, srvDone, s2c, salt, store, hist>>
\* end of a message: acknowledge it if it was content-related (through the send path), else read on
LoopEnd ==
  /\ loop.pc \in {"items", "notify"} /\ loop.todo = <<>>
  /\ IF loop.ack
       THEN /\ lock = "none"
            /\ c2s' = Append(c2s, [id |-> FreshId, seq |-> seqNo, salt |-> salt, who |-> "loop", kind |-> "ack", rk |-> "obj"])
            /\ lastId' = FreshId /\ seqNo' = seqNo + 2
       ELSE UNCHANGED <<c2s, lastId, seqNo>>
  /\ loop' = [pc |-> "read"]
  /\ nCont' = (IF loop.content THEN nCont + 1 ELSE nCont) /\ UNCHANGED <<junk, kind, hint, epoch, cconn, nBad>>
  /\ UNCHANGED <<clock, pc, mid, att, got, lock, tab, srvNext, srvSalt, srvAcc, srvDone, s2c, salt, store, hist>>

Finished == (\A c \in Callers : pc[c] = "done" \/ att[c] > MaxAtt) /\ UNCHANGED vars
Next ==
  \/ Finished \/ Tick \/ EncodeFail \/ SrvRecv \/ SrvRotate \/ SrvClose \/ LoopEof \/ LoopReconnect \/ LoopRead \/ LoopDeliver \/ LoopNotify \/ LoopEnd
  \/ \E c \in Callers : Begin(c) \/ GenId(c) \/ Register(c) \/ Acquire(c) \/ Write(c) \/ Wake(c)
  \/ \E S \in SUBSET srvAcc, j \in BOOLEAN, gz \in GzChoices : SrvAnswer(S, j, gz)
Fair == /\ WF_vars(SrvRecv) /\ WF_vars(LoopRead) /\ WF_vars(LoopEof) /\ WF_vars(LoopReconnect) /\ WF_vars(LoopDeliver) /\ WF_vars(LoopNotify) /\ WF_vars(LoopEnd)
        /\ \A c \in Callers : WF_vars(Begin(c) \/ GenId(c) \/ Register(c) \/ Acquire(c) \/ Write(c) \/ Wake(c))
        /\ WF_vars(\E S \in SUBSET srvAcc : S # {} /\ SrvAnswer(S, FALSE, FALSE))
Spec == Init /\ [][Next]_vars /\ Fair

(* ---------------- properties ---------------- *)
\* C10: ids strictly increase in write order; requests odd seq_no, acknowledgements even; monotone
WireIdsIncrease == \A a, b \in 1..Len(c2s) : a < b => c2s[a].id < c2s[b].id
SeqNoRules == /\ \A a \in 1..Len(c2s) : (c2s[a].seq % 2 = 1) = (c2s[a].kind = "req")
              /\ \A a, b \in 1..Len(c2s) : a < b => c2s[a].seq <= c2s[b].seq
\* C09: a caller only ever receives the result addressed to its own request
OwnResult == \A c \in Callers : got[c].t = "result" => got[c].id = mid[c]
\* C09: a caller that asked for a vector receives the typed vector
TypedVector == \A c \in Callers : got[c].t = "result" => got[c].rk = kind[c]
LoopAlive == loop.pc # "dead"
\* C11: a request the server accepted is never sent a second time
AcceptedNeverResent == \A c \in Callers :
   Cardinality({k \in 1..Len(c2s) : c2s[k].who = c /\ c2s[k].id \in (srvAcc \cup srvDone)}) <= 1
\* C11: the adopted salt is in the store
SaltPersisted == store = salt
\* C11/C16: the loop can always complete the hand-over it is about to make (no stall)
NoStallNotify == loop.pc = "notify" /\ loop.todo # <<>> =>
   \E c \in Callers : Chan(c) = tab[Head(loop.todo)] /\ pc[c] \in {"wait", "write", "acquire", "reg"}
NoStallDeliver == loop.pc = "items" /\ loop.todo # <<>> /\ Head(loop.todo) \in Keys =>
   \E c \in Callers : Chan(c) = tab[Head(loop.todo)] /\ pc[c] \in {"wait", "write"}
\* C10: every content-related message the loop has finished with was acknowledged
AckedAll == loop.pc = "read" => Cardinality({k \in 1..Len(c2s) : c2s[k].kind = "ack"}) = nCont
\* liveness: every caller gets its answer, the loop keeps reading
AllDone == <>(\A c \in Callers : pc[c] = "done")
LoopKeepsReading == []<>(loop.pc = "read")
=============================================================================
