SPECIFICATION Spec
CONSTANTS Dev = {"StripServerNonce"}
 SkipCheck = {}
 LZ = {0, 1, 2}
 MaxAttempts = 2
INVARIANTS Agreement NeverPanics NeverUnkeyed LieImpliesAbort StoredIffDone NoEncryptedFrameUnlessDone
PROPERTIES HonestCompletes LieEventuallyAborts
