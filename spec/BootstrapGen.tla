---------------------------- MODULE BootstrapGen ----------------------------
(* Case set for the bootstrap runs: every configuration the model explores (sequences of up to MaxOpts options: order,
   several options per id, CDN mirrors before and after the ordinary option) x the file situations, with the data centre the
   call is told to migrate to and what Bootstrap.tla says must happen. *)
EXTENDS Integers, Sequences, FiniteSets, TLC, Json, IOUtils, SequencesExt
B == INSTANCE Bootstrap WITH Ids <- {2, 3}, Addrs <- {"dc2", "dc3"}, MaxOpts <- 3, Dev <- {},
       files <- 0, cfg <- 0, pc <- 0, contacted <- 0, exchanged <- 0, wire <- 0, list <- 0, at <- 0, result <- 0, mx <- 0
Conf(c, x) == {c[k].addr : k \in {j \in 1..Len(c) : c[j].id = x /\ ~c[j].cdn}}
Cases == {[opts |-> c, keys |-> f.keys, session |-> f.session, migrate |-> x,
           ok |-> (f.keys = "ok" /\ f.session # "unwritable"),
           exchange |-> (f.session # "prefilled"),
           targets |-> SetToSeq(Conf(c, x))] :
             c \in B!Configs, f \in {g \in B!Files : g.keys = "ok" /\ g.session # "unwritable"}, x \in {2, 3}}
         \cup {[opts |-> <<>>, keys |-> f.keys, session |-> f.session, migrate |-> 2, ok |-> FALSE, exchange |-> FALSE, targets |-> <<>>] :
             f \in {g \in B!Files : ~(g.keys = "ok" /\ g.session # "unwritable")}}
ASSUME ndJsonSerialize(IOEnv.VERIF_OUT, SetToSeq(Cases))
ASSUME PrintT(<<"cases", Cardinality(Cases)>>)
=============================================================================
