SPECIFICATION Spec
CONSTANTS Callers = {c1, c2}
 MaxTick = 3
 MaxRot = 0
 MaxAtt = 3
 FreshKey = TRUE
 MaxJunk = 0
 MaxClose = 0
 MaxBad = 1
 Kinds = {"obj"}
 Dev = {"CleanupLastIdOnEncodeFail"}
INVARIANTS OwnResult TypedVector LoopAlive
PROPERTIES AllDone LoopKeepsReading
VIEW view
