---------------------------- MODULE SRP ----------------------------
(* C18 - Telegram's SRP (2FA password check), toy instance: the group of units modulo the prime
   23 with generator 5 (order 22), every client secret a, server secret b, password value x
   (what PH2(password, salts) evaluates to), and free small values for the hash outputs u and k
   (so the algebraic content is checked for *every* value the hashes could take).

     server holds      v = g^x                      (verifier of the right password)
     server sends      B = k*v + g^b
     client computes   A = g^a,  S = (B - k*g^x')^(a + u*x'),  M1 = H(..., A, B, H(S))     x' = its password
     server checks     S' = (A * v^u)^b,  accepts iff M1 = H(..., A, B, H(S'))

   Width handling: A, B and S enter the hashes as 256-byte strings.  A value has a leading-zero
   class lz; `Pad` keeps the width, `Strip` (big.Int.Bytes, as a careless client would do) drops
   leading zeros: the two byte strings are equal iff lz = 0.

   Dev: NoPadS, NoPadA, NoPadB (the padding dropped before hashing), SwapSalts (x from the salts in
   the wrong order), NoRangeCheck (B outside (0, p) accepted). *)
EXTENDS Integers, Sequences, FiniteSets, TLC
CONSTANTS Dev

P == 23
G == 5
RECURSIVE Pow(_, _)
Pow(x, n) == IF n = 0 THEN 1 ELSE (x * Pow(x, n - 1)) % P
Secrets == 1..4
Hashes == 1..3
LZ == {0, 1}

VARIABLES a, b, x, xc, u, k, lzA, lzB, lzS, bcase, verdict
vars == <<a, b, x, xc, u, k, lzA, lzB, lzS, bcase, verdict>>

\* bcase: what the server sends as B
BCases == {"ok", "zero", "p", "p+1", "short", "long"}
Init == /\ a \in Secrets /\ b \in Secrets /\ x \in Secrets /\ xc \in Secrets \cup {0}   \* xc = 0: empty password
        /\ u \in Hashes /\ k \in Hashes /\ lzA \in LZ /\ lzB \in LZ /\ lzS \in LZ
        /\ bcase \in BCases /\ verdict = "none"

V == Pow(G, x)
B == (k * V + Pow(G, b)) % P
A == Pow(G, a)
ClientS == Pow((B - k * Pow(G, xc) + k * P) % P, a + u * xc)
ServerS == Pow((A * Pow(V, u)) % P, b)
Bytes(name, val, lz, dev) == IF dev \in Dev /\ lz > 0 THEN <<name, val, "stripped">> ELSE <<name, val, "padded">>
M1Client == <<"M1", Bytes("A", A, lzA, "NoPadA"), Bytes("B", B, lzB, "NoPadB"), <<"K", Bytes("S", ClientS, lzS, "NoPadS")>>>>
M1Server == <<"M1", <<"A", A, "padded">>, <<"B", B, "padded">>, <<"K", <<"S", ServerS, "padded">>>>>>

Step ==
  /\ verdict = "none"
  /\ verdict' = IF xc = 0 THEN "no-password"
                ELSE IF bcase # "ok" /\ "NoRangeCheck" \notin Dev THEN "refused"
                ELSE IF bcase # "ok" THEN "answered-invalid-B"
                ELSE IF M1Client = M1Server THEN "accepted" ELSE "rejected"
  /\ UNCHANGED <<a, b, x, xc, u, k, lzA, lzB, lzS, bcase>>
Next == Step \/ (verdict # "none" /\ UNCHANGED vars)
Spec == Init /\ [][Next]_vars /\ WF_vars(Step)

Valid == bcase = "ok" /\ B # 0
\* the right password is accepted, whatever the secrets and whatever leading zeros A, B, S have
RightAccepted == verdict # "none" /\ Valid /\ xc = x => verdict = "accepted"
\* any other password is rejected - except for chance collisions, which in a group of 22 elements do occur
\* (TLC finds a = b = k = u = x = 1, x' = 4): stated here with the collision excluded, and checked on the real
\* 2048-bit group by the term instance (SRPGen), where a collision is out of reach
WrongRejected == verdict # "none" /\ Valid /\ xc # x /\ xc # 0 /\ ClientS # ServerS => verdict = "rejected"
EmptyIsNoPassword == verdict # "none" /\ xc = 0 => verdict = "no-password"
InvalidBRefused == verdict # "none" /\ xc # 0 /\ bcase # "ok" => verdict = "refused"
Decides == <>(verdict # "none")
=============================================================================
