---------------------------- MODULE SchemaGen ----------------------------
(* C14 - generator of TL schemas of the subset the tool documents: a state machine that builds a
   schema definition by definition, parameter by parameter; random behaviours (tlc -simulate)
   give schemas with enums (types whose constructors have no parameters), single- and
   multi-constructor types, constructor names that clash with their type name, dotted namespaces,
   every primitive, conditional parameters on the bits BitsU (a constant the check rotates over
   0..31) including shared bits and `true` flags, the flags word at any position before the
   first conditional parameter, vectors of every element kind, 0..7 parameters (tlgen passes up
   to 5 positionally), parameter names that need mangling or collide with Go keywords, and
   functions returning an object, an enum, Bool, Vector<int> or Vector<T>.

   The finished schema (a sequence of definitions) is printed as JSON together with Xlate(schema) -
   what the generated package must declare for it; the harness renders the schema as .tl text and
   compares what tlparser.ParseSchema and tlgen make of it with the definitions and with Xlate. *)
EXTENDS Integers, Sequences, FiniteSets, TLC, Json

Types == <<"Foo", "ns.Item", "Baz", "MsgInfo", "Color", "Holder">>
CtorPool == ("Foo" :> <<"foo", "fooEmpty", "fooBig">>) @@ ("ns.Item" :> <<"ns.item", "ns.itemOne", "ns.itemTwo">>)
            @@ ("Baz" :> <<"bazSingle", "bazOther">>)
            \* a constructor that equals its type only after the name mangling (snake case), as bad_msg_notification = BadMsgNotification
            @@ ("MsgInfo" :> <<"msg_info", "msgInfoNew">>) @@ ("Color" :> <<"colorRed", "colorGreen", "colorBlue">>)
            \* names that begin like the built-in types whose declarations (`int ? = Int;`) the parser skips
            @@ ("Holder" :> <<"stringHolder", "intHolder", "longHolder">>)
FuncPool == <<"getFoo", "ns.getItems", "checkBaz", "listNumbers", "ns.setColor", "doNothing", "bytesToFoo", "doubleCheck">>
\* names that need mangling (snake case, acronyms), a Go keyword, the name of a package the generated
\* code uses, identifiers of the generated method body
ParamNames == <<"id", "user_id", "type", "api_url", "errors", "ok", "title", "c", "big_number", "data">>
Bases == {"int", "long", "double", "string", "bytes", "Bool", "Foo", "ns.Item", "Baz", "MsgInfo", "Color", "Holder"}
CONSTANT BitsU          \* the flag bits of this run, a subset of 0..31 (the check rotates it over all bits)
ASSUME BitsU \subseteq 0..31
MaxParams == 7      \* tlgen passes up to 5 parameters positionally, more through a params struct

VARIABLES defs, cur, phase, tix, cix, fix, nextId
vars == <<defs, cur, phase, tix, cix, fix, nextId>>
NoDef == [open |-> FALSE]

Init == /\ defs = <<>> /\ cur = NoDef /\ phase = "types" /\ tix = 1 /\ cix = 1 /\ fix = 1 /\ nextId = 1

HasFlags == \E j \in 1..Len(cur.params) : cur.params[j].base = "#"
Used(n) == \E j \in 1..Len(cur.params) : cur.params[j].name = n
\* the first unused name, counting from a position that moves with the definition
FreeName == LET N == Len(ParamNames)
                Rot(j) == ((j + nextId) % N) + 1
                S == {j \in 1..N : ~Used(ParamNames[Rot(j)])} IN ParamNames[Rot(CHOOSE j \in S : \A m \in S : j <= m)]
NoCondYet == HasFlags /\ ~\E j \in 1..Len(cur.params) : cur.params[j].bit >= 0

\* the type Color is an enum: its constructors take no parameters
StartCtor(want) ==
  /\ phase = "types" /\ ~cur.open /\ tix <= Len(Types) /\ cix <= Len(CtorPool[Types[tix]])
  /\ Types[tix] = "Color" => want = 0
  /\ cur' = [open |-> TRUE, section |-> "types", name |-> CtorPool[Types[tix]][cix], id |-> <<4660 + nextId, 100 * nextId + 7>>,
             params |-> <<>>, result |-> Types[tix], resultvec |-> FALSE, want |-> want]
  /\ nextId' = nextId + 1 /\ UNCHANGED <<defs, phase, tix, cix, fix>>
AddParam(base, vec, bit) ==
  /\ cur.open /\ Len(cur.params) < cur.want
  /\ bit >= 0 => HasFlags
  /\ NoCondYet => bit >= 0
  /\ cur' = [cur EXCEPT !.params = Append(@, [name |-> FreeName, base |-> base, vec |-> vec, bit |-> bit])]
  /\ UNCHANGED <<defs, phase, tix, cix, fix, nextId>>
AddTrueFlag(bit) ==
  /\ cur.open /\ Len(cur.params) < cur.want /\ HasFlags
  /\ cur' = [cur EXCEPT !.params = Append(@, [name |-> FreeName, base |-> "true", vec |-> FALSE, bit |-> bit])]
  /\ UNCHANGED <<defs, phase, tix, cix, fix, nextId>>
AddFlagsWord ==
  /\ cur.open /\ Len(cur.params) < cur.want - 1 /\ ~HasFlags
  /\ cur' = [cur EXCEPT !.params = Append(@, [name |-> "flags", base |-> "#", vec |-> FALSE, bit |-> -1])]
  /\ UNCHANGED <<defs, phase, tix, cix, fix, nextId>>
\* a flags word must be followed by at least one conditional parameter
WellFormed == ~HasFlags \/ \E j \in 1..Len(cur.params) : cur.params[j].bit >= 0
FinishCtor ==
  /\ cur.open /\ cur.section = "types" /\ WellFormed /\ Len(cur.params) = cur.want
  /\ defs' = Append(defs, [section |-> cur.section, name |-> cur.name, id |-> cur.id, params |-> cur.params, result |-> cur.result, resultvec |-> cur.resultvec])
  /\ cur' = NoDef
  /\ \/ cix' = cix + 1 /\ UNCHANGED tix                                   \* another constructor of this type
     \/ cix' = 1 /\ tix' = tix + 1                                          \* next type
  /\ UNCHANGED <<phase, fix, nextId>>
NextPhase ==
  /\ phase = "types" /\ ~cur.open /\ (tix > Len(Types) \/ (tix = Len(Types) /\ cix > 1))
  /\ \A t \in 1..Len(Types) : \E j \in 1..Len(defs) : defs[j].result = Types[t]       \* every type has a constructor
  /\ phase' = "functions" /\ UNCHANGED <<defs, cur, tix, cix, fix, nextId>>
\* skipping the rest of a type's constructor pool
SkipType ==
  /\ phase = "types" /\ ~cur.open /\ tix <= Len(Types) /\ cix > 1
  /\ tix' = tix + 1 /\ cix' = 1 /\ UNCHANGED <<defs, cur, phase, fix, nextId>>
StartFunc(res, resvec, want) ==
  /\ phase = "functions" /\ ~cur.open /\ fix <= Len(FuncPool)
  /\ cur' = [open |-> TRUE, section |-> "functions", name |-> FuncPool[fix], id |-> <<22136 + nextId, 100 * nextId + 9>>,
             params |-> <<>>, result |-> res, resultvec |-> resvec, want |-> want]
  /\ nextId' = nextId + 1 /\ fix' = fix + 1 /\ UNCHANGED <<defs, phase, tix, cix>>
FinishFunc ==
  /\ cur.open /\ cur.section = "functions" /\ WellFormed /\ Len(cur.params) = cur.want
  /\ defs' = Append(defs, [section |-> cur.section, name |-> cur.name, id |-> cur.id, params |-> cur.params, result |-> cur.result, resultvec |-> cur.resultvec])
  /\ cur' = NoDef /\ UNCHANGED <<phase, tix, cix, fix, nextId>>
(* ---- T: what the generated package must declare for a schema ----
   per definition: class enum (a constant with the id as value) or struct (CRC() = id; one field per
   parameter other than the flags word, in order: Go kind, slice marker, tl tag; FlagIndex() = position of
   the flags word among the parameters, counted from 0) *)
IsEnumType(D, t) == \A j \in 1..Len(D) : (D[j].section = "types" /\ D[j].result = t) => Len(D[j].params) = 0
GoKind(b) == CASE b = "int" -> "int32" [] b = "long" -> "int64" [] b = "double" -> "float64" [] b = "string" -> "string"
               [] b = "bytes" -> "[]byte" [] b \in {"Bool", "true"} -> "bool" [] OTHER -> "ref"
Tag(p) == IF p.bit < 0 THEN "" ELSE "flag:" \o ToString(p.bit) \o (IF p.base = "true" THEN ",encoded_in_bitflags" ELSE "")
XlateDef(D, d) ==
  IF d.section = "types" /\ IsEnumType(D, d.result)
    THEN [name |-> d.name, id |-> d.id, class |-> "enum", fields |-> <<>>, flagindex |-> -1]
    ELSE LET data == SelectSeq(d.params, LAMBDA p : p.base # "#")
             fl == {j \in 1..Len(d.params) : d.params[j].base = "#"} IN
         [name |-> d.name, id |-> d.id, class |-> "struct",
          fields |-> [j \in 1..Len(data) |-> [name |-> data[j].name, kind |-> GoKind(data[j].base), slice |-> data[j].vec, tag |-> Tag(data[j])]],
          flagindex |-> IF fl = {} THEN -1 ELSE (CHOOSE j \in fl : TRUE) - 1]
Xlate(D) == [j \in 1..Len(D) |-> XlateDef(D, D[j])]

\* the machine only builds schemas of the documented subset
SubsetOK ==
  /\ \A i, j \in 1..Len(defs) : i # j => defs[i].id # defs[j].id /\ defs[i].name # defs[j].name
  /\ \A j \in 1..Len(defs) : LET P == defs[j].params IN
        /\ \A a, b \in 1..Len(P) : a # b => P[a].name # P[b].name
        /\ Cardinality({a \in 1..Len(P) : P[a].base = "#"}) <= 1
        /\ \A a \in 1..Len(P) : P[a].bit >= 0 => \E f \in 1..(a - 1) : P[f].base = "#"
        /\ \A a \in 1..Len(P) : P[a].base = "true" => P[a].bit >= 0 /\ ~P[a].vec
        /\ (\E a \in 1..Len(P) : P[a].base = "#") => \E a \in 1..Len(P) : P[a].bit >= 0

Emit ==
  /\ phase = "functions" /\ ~cur.open /\ fix > 2
  /\ PrintT(<<"SCHEMA", ToJson([defs |-> defs, expect |-> Xlate(defs)])>>)
  /\ phase' = "done" /\ UNCHANGED <<defs, cur, tix, cix, fix, nextId>>

Next ==
  \/ (\E w \in 0..MaxParams : StartCtor(w)) \/ FinishCtor \/ NextPhase \/ SkipType \/ FinishFunc \/ Emit \/ AddFlagsWord
  \/ \E b \in Bases, v \in BOOLEAN, bit \in {-1} \cup BitsU : AddParam(b, v, bit)
  \/ \E bit \in BitsU : AddTrueFlag(bit)
  \/ \E r \in {"Foo", "ns.Item", "Baz", "MsgInfo", "Color", "Bool", "int"}, rv \in BOOLEAN : \E w \in 0..MaxParams : (r = "int" => rv) /\ StartFunc(r, rv, w)
Spec == Init /\ [][Next]_vars
=============================================================================
