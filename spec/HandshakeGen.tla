---------------------------- MODULE HandshakeGen ----------------------------
(* Case sets for the key-exchange runs: every leading-zero corner of every fixed-width value
   (C06) and every single lie of the server (C07), as enumerated by Handshake.tla. *)
EXTENDS Integers, Sequences, FiniteSets, TLC, Json, IOUtils, SequencesExt
H == INSTANCE Handshake WITH Dev <- {}, SkipCheck <- {}, LZ <- {0, 1, 2}, MaxAttempts <- 2, memKey <- 0, fpSeen <- 0, attempt <- 0,
       lz <- [f \in {} |-> 0], lie <- 0, pc <- 0, stored <- 0, encSent <- 0, cKey <- 0, cSalt <- 0, sKey <- 0, sSalt <- 0

\* harness names of the values whose leading bytes can be forced
Corners == {"nonce", "server_nonce", "new_nonce", "hash1", "rsa", "g_a", "g_b", "g_ab"}
CornerCases == {[corner |-> c, lz |-> k] : c \in Corners, k \in {1, 2}}
                 \cup {[corner |-> c, lz |-> 0] : c \in {"", "pq_big", "pq_mid", "pq_small", "pq_62", "pq_63", "gb_tiny"}}

Hows(l) == IF l.field = "kind" THEN (IF l.step = "dhGen" THEN {"retry", "fail"} ELSE {"fail"})
           \* "no offered fingerprint matches": one foreign fingerprint, several foreign ones, or none at all
           \* a wrong value is any value but the right one: one bit off, the same bit off in two bytes, two bytes transposed
           \* (differences that cancel under a folding comparison), a fresh value, the other nonce, zero
           ELSE IF l.field = "fingerprints" THEN {"flip", "flip2", "swap", "fresh", "zero", "several", "none"}
           ELSE IF l.field = "answer_hash" THEN {"flip", "flip2", "swap", "fresh", "zero"}
           ELSE {"flip", "flip2", "swap", "fresh", "other", "zero"}
LieCases == UNION {{[step |-> l.step, field |-> l.field, how |-> h] : h \in Hows(l)} : l \in {x \in H!Lies : x.step # "none"}}

ASSUME ndJsonSerialize(IOEnv.VERIF_OUT, SetToSeq(CornerCases))
ASSUME ndJsonSerialize(IOEnv.VERIF_OUT2, SetToSeq(LieCases))
=============================================================================
