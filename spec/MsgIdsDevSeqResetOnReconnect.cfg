SPECIFICATION Spec
CONSTANTS
  Callers = {"a", "b"}
  Dev = {"SeqResetOnReconnect"}
  ClockVals <- SmallClock
CONSTRAINT Bounded
INVARIANTS Safety
CHECK_DEADLOCK FALSE
