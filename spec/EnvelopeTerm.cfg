CONSTANTS BodyLens = {0, 4, 8, 12, 16, 20, 24, 28, 32, 36, 40, 44, 48, 52, 56, 60, 64, 1024, 65536}
 MutLens = {0, 12, 16, 40}
