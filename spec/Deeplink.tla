---------------------------- MODULE Deeplink ----------------------------
(* C20 - step machine shaped like telegram/deeplinks; see DeeplinkDef for the declarative
   meaning `Resolve` it is checked against. *)
EXTENDS DeeplinkDef

(* ---- step machine shaped like the implementation ---- *)
Templates == {"join", "user"}
Orders == {<<"join", "user">>, <<"user", "join">>}

VARIABLES link, order, pc, uhost, upath, res
vars == <<link, order, pc, uhost, upath, res>>

None == [kind |-> "none"]

Init == /\ link \in Links /\ order \in Orders
        /\ pc = "parse" /\ uhost = "?" /\ upath = <<>> /\ res = None

\* net/url on a scheme-less string puts everything into Path; "host:port/..." parses as
\* scheme "host" (open case, any result).  upath models u.Path as <<first chunk>> \o segs
\* where the first chunk is the host text when the path does not start with "/".
Parse ==
  /\ pc = "parse"
  /\ IF link.scheme = ""
       THEN /\ uhost' = ""
            /\ upath' = IF link.host = "" THEN <<"/">> \o link.segs ELSE <<link.host>> \o link.segs
       ELSE /\ uhost' = link.host /\ upath' = <<"/">> \o link.segs
  /\ pc' = "scheme" /\ UNCHANGED <<link, order, res>>

SchemeSwitch ==
  /\ pc = "scheme"
  /\ IF link.scheme \in {"", "http", "https"} /\ ~(link.scheme = "" /\ link.port # "" /\ link.host # "")
       THEN pc' = "fixhost" /\ UNCHANGED res
       ELSE pc' = "done" /\ res' = Err
  /\ UNCHANGED <<link, order, uhost, upath>>

\* fixURLHost: host empty and path not starting with "/" and not empty -> split at first "/"
FixHost ==
  /\ pc = "fixhost"
  /\ IF uhost = "" /\ upath[1] # "/"
       THEN IF Len(upath) = 1                               \* no "/" at all: bare host
              THEN IF "BareHostIndexMinusOne" \in Dev
                     THEN pc' = "done" /\ res' = [kind |-> "panic"] /\ UNCHANGED <<uhost, upath>>
                     ELSE pc' = "hostcheck" /\ uhost' = upath[1] /\ upath' = <<"/">> /\ UNCHANGED res
              ELSE pc' = "hostcheck" /\ uhost' = upath[1] /\ upath' = <<"/">> \o Tail(upath) /\ UNCHANGED res
       ELSE pc' = "hostcheck" /\ UNCHANGED <<uhost, upath, res>>
  /\ UNCHANGED <<link, order>>

HostCheck ==
  /\ pc = "hostcheck"
  /\ IF uhost \in Reserved THEN pc' = "tpl" /\ UNCHANGED res ELSE pc' = "done" /\ res' = Err
  /\ UNCHANGED <<link, order, uhost, upath>>

Segs == Tail(upath)
NonEmpty(c) == c # "empty"
\* matchPath: segment counts must agree, literal items must be equal, variables bind anything;
\* a bare host (no slash) has path "" which matches neither template.
Match(t) ==
  IF Len(link.segs) = 0 THEN None
  ELSE IF t = "user" THEN (IF Len(Segs) = 1 THEN (IF NonEmpty(Segs[1]) THEN User(1) ELSE Err) ELSE None)
  ELSE (IF Len(Segs) = 2 /\ Segs[1] = "joinchat" THEN (IF NonEmpty(Segs[2]) THEN Invite(2) ELSE Err) ELSE None)

TryTemplate ==
  /\ pc = "tpl"
  /\ IF order = <<>> THEN pc' = "done" /\ res' = Err /\ UNCHANGED order
     ELSE LET m == Match(Head(order)) IN
          IF m = None THEN order' = Tail(order) /\ UNCHANGED <<pc, res>>
          ELSE pc' = "done" /\ res' = m /\ UNCHANGED order
  /\ UNCHANGED <<link, uhost, upath>>

Done == pc = "done" /\ UNCHANGED vars

Next == Parse \/ SchemeSwitch \/ FixHost \/ HostCheck \/ TryTemplate \/ Done
Spec == Init /\ [][Next]_vars /\ WF_vars(Next)

(* ---- properties ---- *)
TypeOK == pc \in {"parse", "scheme", "fixhost", "hostcheck", "tpl", "done"}
\* the machine never panics and ends in the declared meaning, whatever the table order
Total == res.kind # "panic"
Agrees == pc = "done" => (Resolve(link).kind = "open" \/ res = Resolve(link))
Terminates == <>(pc = "done")
=============================================================================
