---------------------------- MODULE RpcError ----------------------------
(* C17 (text part) - step machine shaped like errors.go TryExpandError: scan the table in
   order, stop at the first row whose prefix and suffix match, cut the parameter out and
   parse it.  Checked against RpcErrorDef!Expand for every text of the universe. *)
EXTENDS RpcErrorDef
CONSTANT Dev

VARIABLES text, pc, i, res
vars == <<text, pc, i, res>>

Init == text \in Texts /\ pc = "scan" /\ i = 1 /\ res = [kind |-> "none"]

Scan ==
  /\ pc = "scan"
  /\ IF i > Len(Table) THEN pc' = "done" /\ res' = [kind |-> "plain", msg |-> text, param |-> NoParam] /\ UNCHANGED i
     ELSE IF Match(i, text) THEN pc' = "parse" /\ UNCHANGED <<i, res>>
     ELSE i' = i + 1 /\ UNCHANGED <<pc, res>>
  /\ UNCHANGED text

Parse ==
  /\ pc = "parse"
  /\ LET m == Middle(i, text) IN
     IF Len(m) = 1 /\ m[1] \in NumDefinite
       THEN res' = [kind |-> "param", msg |-> XForm(i), param |-> m[1], row |-> i]
       ELSE IF "AtoiPanics" \in Dev THEN res' = [kind |-> "panic"]
            ELSE res' = [kind |-> "plain", msg |-> text, param |-> NoParam]   \* not a number: ordinary error
  /\ pc' = "done" /\ UNCHANGED <<text, i>>

Done == pc = "done" /\ UNCHANGED vars
Next == Scan \/ Parse \/ Done
Spec == Init /\ [][Next]_vars /\ WF_vars(Next)

Total  == res.kind # "panic"
Agrees == pc = "done" => (Expand(text).kind = "open" \/ res = Expand(text))
\* precedence never matters for a definite text: at most one row gives a numeric parameter
UniqueRow == Cardinality({r \in Rows : NumericMatch(r, text)}) <= 1
Terminates == <>(pc = "done")
=============================================================================
