SPECIFICATION Spec
CONSTANT Dev = {"NoRangeCheck"}
INVARIANTS RightAccepted WrongRejected EmptyIsNoPassword InvalidBRefused
