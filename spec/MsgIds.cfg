SPECIFICATION Spec
CONSTANTS
  Callers = {"a", "b"}
  Dev = {}
  ClockVals <- SmallClock
CONSTRAINT Bounded
INVARIANTS Safety IndInv
CHECK_DEADLOCK FALSE
