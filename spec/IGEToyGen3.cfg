CONSTANT MaxBlocks = 3
