---------------------------- MODULE IGETerm ----------------------------
(* C05 - term instance of IGE.tla: the IGE chaining definition, the temp-key derivation from
   (new_nonce, server_nonce) and the key-exchange wrapper as symbolic terms over named inputs.
   TLC evaluates the definitions per case and serialises them; the Go harness binds the
   inputs (seeded), runs the real code and checks every relation. *)
EXTENDS Terms, TLC, Json, IOUtils, FiniteSets, SequencesExt
CONSTANTS BlockCounts, MaxPayload

Def == INSTANCE IGE WITH E <- AesE, D <- AesD, X <- XorT

IV1(iv) == Slice(iv, 0, 16)
IV2(iv) == Slice(iv, 16, 32)
IgeEncT(key, iv, data, n) == CatSeq(Def!IgeEnc(key, IV1(iv), IV2(iv), BlocksOf(data, n)))
IgeDecT(key, iv, data, n) == CatSeq(Def!IgeDec(key, IV1(iv), IV2(iv), BlocksOf(data, n)))

\* temp keys (MTProto: server_DH_params / client_DH_inner_data encryption); nn = new_nonce as
\* 32 bytes, sn = server_nonce as 16 bytes - fixed width, whatever their numeric value
NN == BE(32, Var("new_nonce"))
SN == BE(16, Var("server_nonce"))
TmpKey == Cat2(Sha1(Cat2(NN, SN)), Slice(Sha1(Cat2(SN, NN)), 0, 12))
TmpIV  == CatSeq(<<Slice(Sha1(Cat2(SN, NN)), 12, 20), Sha1(Cat2(NN, NN)), Slice(NN, 0, 4)>>)

WrapBlocks(len) == (20 + len + Def!WrapPad(len)) \div 16
Wrapped(len) == CatSeq(<<Sha1(Var("payload")), Var("payload"), Free(Def!WrapPad(len))>>)

IgeCase(n, dir) ==
  [kind |-> "ige", dir |-> dir, blocks |-> n,
   checks |-> << Eq(Var("out"), IF dir = "enc" THEN IgeEncT(Var("key"), Var("iv"), Var("data"), n)
                                ELSE IgeDecT(Var("key"), Var("iv"), Var("data"), n)) >>]
TempKeyCase(lzn, lzs) ==
  [kind |-> "tempkeys", lz_new |-> lzn, lz_server |-> lzs,
   checks |-> << Eq(Var("key"), TmpKey), Eq(Var("iv"), TmpIV) >>]
\* what a conformant peer sends: the code must unwrap it to the payload
WrapPeerCase(len, lzn, lzs) ==
  [kind |-> "wrap_peer", len |-> len, lz_new |-> lzn, lz_server |-> lzs,
   ct |-> IgeEncT(TmpKey, TmpIV, Var("wrapped"), WrapBlocks(len)), wrapped |-> Wrapped(len),
   checks |-> << Eq(Var("out"), Var("payload")) >>]
\* what the client itself produces: SHA1 ++ payload ++ 0..15 bytes, under the temp keys
WrapClientCase(len, lzn, lzs) ==
  [kind |-> "wrap_client", len |-> len, lz_new |-> lzn, lz_server |-> lzs,
   plain |-> IgeDecT(TmpKey, TmpIV, Var("ct"), WrapBlocks(len)),
   checks |-> << Eq(LenOf(Var("ct")), IntLit(16 * WrapBlocks(len))),
                 Eq(Slice(Var("plain"), 0, 20), Sha1(Var("payload"))),
                 Eq(Slice(Var("plain"), 20, 20 + len), Var("payload")) >>]

LZ == {0, 1, 2}
Cases ==
     [i \in 1..Cardinality(BlockCounts) * 2 |->
        LET ns == SetToSortSeq(BlockCounts, <)
        IN IgeCase(ns[(i + 1) \div 2], IF i % 2 = 1 THEN "enc" ELSE "dec")]
  \o [i \in 1..9 |-> TempKeyCase((i - 1) \div 3, (i - 1) % 3)]
  \o [i \in 1..(MaxPayload + 1) |-> WrapPeerCase(i - 1, 0, 0)]
  \o [i \in 1..(MaxPayload + 1) |-> WrapClientCase(i - 1, 0, 0)]
  \o [i \in 1..18 |-> IF i <= 9 THEN WrapPeerCase(11 + i, (i - 1) \div 3, (i - 1) % 3)
                      ELSE WrapClientCase(2 + i, (i - 10) \div 3, (i - 10) % 3)]

\* the harness's whole-string IGE primitive (used by the envelope and handshake terms) must equal
\* the unfolded definition
PrimCases == [i \in 1..8 |-> [kind |-> "prim", blocks |-> (i + 1) \div 2,
                checks |-> << IF i % 2 = 1
                                THEN Eq(IgeEP(Var("key"), Var("iv"), Var("data")), IgeEncT(Var("key"), Var("iv"), Var("data"), (i + 1) \div 2))
                                ELSE Eq(IgeDP(Var("key"), Var("iv"), Var("data")), IgeDecT(Var("key"), Var("iv"), Var("data"), (i + 1) \div 2)) >>]]

LenCases == [n \in 1..41 |-> [kind |-> "length", len |-> n - 1, valid |-> Def!ValidLen(n - 1)]]

\* the message-level wrapper: zero padding up to the next multiple of 16, none when the message is aligned
MsgWrapCases == [n \in 1..(MaxPayload + 32) |-> [kind |-> "msgwrap", len |-> n, pad |-> Def!Pad16(n)]]

ASSUME ndJsonSerialize(IOEnv.VERIF_OUT, Cases \o PrimCases \o LenCases \o MsgWrapCases)
=============================================================================
