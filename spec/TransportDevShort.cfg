SPECIFICATION Spec
CONSTANTS MaxMsgs = 2
 Dev = {"ShortRead"}
INVARIANTS DeliveredIsPrefixOfSent ModeDetected EofIsEof ErrOnlyMidFrame
