---------------------------- MODULE SessionStoreTrace ----------------------------
(* C12 - validation of op sequences executed on real files (internal/session) against
   SessionStore.  The harness controls modification times itself (os.Chtimes to an abstract
   clock), so the trace is judged under the coarse environment; every Load is compared with
   what the specification demands (`Want`).  A stale result that the as-fixed design explains
   only through the CoarseForeign environment deviation is reported under that name; any
   other difference is unexplained.  Traces are concatenated, separated by Reset events; the
   verdicts are written to IOEnv.VERIF_OUT. *)
EXTENDS Integers, Sequences, FiniteSets, TLC, Json, IOUtils

Loaders == {"l1", "l2"}
Sessions == {"s1", "s2"}
Trace == ndJsonDeserialize(IOEnv.VERIF_TRACE)

VARIABLES i, file, mtime, clock, writer, cache, cachedAt, seq, bad
vars == <<i, file, mtime, clock, writer, cache, cachedAt, seq, bad>>

S == INSTANCE SessionStore WITH MaxClock <- 1000000, Dev <- {"CoarseForeign"},
                                last <- [l |-> "none", res |-> "none", want |-> "none"]

Fresh == /\ file = "absent" /\ mtime = 0 /\ clock = 1 /\ writer = "none"
         /\ cache = [l \in Loaders |-> "none"] /\ cachedAt = [l \in Loaders |-> 0]
Init == i = 1 /\ Fresh /\ seq = 0 /\ bad = <<>>

Ev == Trace[i]
Is(op) == i <= Len(Trace) /\ Ev.op = op /\ i' = i + 1

Reset == /\ Is("Reset") /\ seq' = Ev.seq /\ UNCHANGED bad
         /\ file' = "absent" /\ mtime' = 0 /\ clock' = 1 /\ writer' = "none"
         /\ cache' = [l \in Loaders |-> "none"] /\ cachedAt' = [l \in Loaders |-> 0]

Tick == Is("Tick") /\ clock' = clock + 1 /\ UNCHANGED <<file, mtime, writer, cache, cachedAt, seq, bad>>

Note(kind, want, got) == Append(bad, [seq |-> seq, pos |-> i, kind |-> kind, want |-> want, got |-> got])

Store == /\ Is("Store")
         /\ file' = Ev.s /\ mtime' = clock /\ writer' = Ev.l
         /\ cache' = [cache EXCEPT ![Ev.l] = "none"]
         /\ bad' = IF Ev.res = "ok" THEN bad ELSE Note("store-failed", "ok", Ev.res)
         /\ UNCHANGED <<clock, cachedAt, seq>>

Crash == /\ Is("Crash") /\ file' = "torn" /\ mtime' = clock /\ writer' = "crash"
         /\ UNCHANGED <<clock, cache, cachedAt, seq, bad>>

Load == /\ Is("Load")
        /\ LET l == Ev.l
               want == S!Want
               stale == S!CacheHit(l) /\ cache[l] # want /\ Ev.res = cache[l]
           IN /\ bad' = IF Ev.res = want THEN bad
                        ELSE IF stale /\ writer # l THEN Note("CoarseForeign", want, Ev.res)
                        ELSE IF stale THEN Note("StaleOwnStore", want, Ev.res)
                        ELSE Note("wrong-load", want, Ev.res)
              \* the model follows the code's cache (as fixed): refreshed on a real read
              /\ IF ~S!CacheHit(l) /\ file \in Sessions
                   THEN cache' = [cache EXCEPT ![l] = file] /\ cachedAt' = [cachedAt EXCEPT ![l] = mtime]
                   ELSE UNCHANGED <<cache, cachedAt>>
        /\ UNCHANGED <<file, mtime, clock, writer, seq>>

\* a loader created now (a restart, another process) reads the file itself
Observe == /\ Is("Observe")
           /\ bad' = IF Ev.res = S!Want THEN bad ELSE Note("wrong-content-for-new-loader", S!Want, Ev.res)
           /\ UNCHANGED <<file, mtime, clock, writer, cache, cachedAt, seq>>

Finish == /\ i = Len(Trace) + 1 /\ i' = i + 1
          /\ ndJsonSerialize(IOEnv.VERIF_OUT, bad)
          /\ UNCHANGED <<file, mtime, clock, writer, cache, cachedAt, seq, bad>>

Next == Reset \/ Tick \/ Store \/ Crash \/ Load \/ Observe \/ Finish
Spec == Init /\ [][Next]_vars
\* every line consumed (plus the Finish step): diameter = Len(Trace) + 2
TraceAccepted == TLCGet("stats").diameter = Len(Trace) + 2
=============================================================================
