SPECIFICATION Spec
CONSTANTS
  Callers = {"a", "b"}
  Dev = {"GenIdOutsideLock"}
  ClockVals <- SmallClock
CONSTRAINT Bounded
INVARIANTS Safety
CHECK_DEADLOCK FALSE
