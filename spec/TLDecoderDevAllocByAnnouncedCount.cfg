SPECIFICATION Spec
CONSTANTS MaxLen = 3
 Dev = {"AllocByAnnouncedCount"}
INVARIANTS Total AllocBounded BoundedSteps ValueMeansComplete
