---------------------------- MODULE DeeplinkGen ----------------------------
(* Serialises the C20 case set (every link shape with its declared outcome) for the harness. *)
EXTENDS DeeplinkDef, SequencesExt, Json, IOUtils
ASSUME ndJsonSerialize(IOEnv.VERIF_OUT, SetToSeq({CaseOf(l) : l \in Links}))
=============================================================================
