SPECIFICATION Spec
CONSTANTS Callers = {c1, c2}
 MaxTick = 3
 MaxRot = 1
 MaxAtt = 3
 FreshKey = TRUE
 MaxJunk = 0
 MaxClose = 0
 MaxBad = 1
 Kinds = {"obj"}
 Dev = {}
INVARIANTS WireIdsIncrease SeqNoRules OwnResult TypedVector LoopAlive AcceptedNeverResent SaltPersisted NoStallNotify NoStallDeliver AckedAll
PROPERTIES AllDone LoopKeepsReading
VIEW view
