SPECIFICATION Spec
CONSTANTS MaxMsgs = 3
 Dev = {}
INVARIANTS DeliveredIsPrefixOfSent ModeDetected EofIsEof ErrOnlyMidFrame
PROPERTY AllDeliveredAtEof
