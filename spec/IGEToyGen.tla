---------------------------- MODULE IGEToyGen ----------------------------
(* C05 - the toy behaviours of IGEToy as cases: every permutation key, IV pair and message of
   1..MaxBlocks 2-bit blocks with the ciphertext / plaintext the IGE definition yields.  The
   harness lifts them to 16-byte blocks and steps them through the real block loop (hook
   VerifIGEWithBlock) with the permutation as block cipher. *)
EXTENDS Integers, Sequences, FiniteSets, TLC, Json, IOUtils, SequencesExt
CONSTANTS MaxBlocks
Blocks == 0..3
Perms == {p \in [Blocks -> Blocks] : \A a, b \in Blocks : a # b => p[a] # p[b]}
Xor2(a, b) == (((a % 2) + (b % 2)) % 2) + 2 * (((a \div 2) + (b \div 2)) % 2)
ToyE(k, b) == k[b]
ToyD(k, b) == CHOOSE a \in Blocks : k[a] = b
Def == INSTANCE IGE WITH E <- ToyE, D <- ToyD, X <- Xor2
Inputs == UNION {[1..n -> Blocks] : n \in 1..MaxBlocks}
Case(k, iv, inp, dir) ==
  [perm |-> [j \in 1..4 |-> k[j - 1]], iv |-> iv, input |-> inp, dir |-> dir,
   expect |-> IF dir = "enc" THEN Def!IgeEnc(k, iv[1], iv[2], inp) ELSE Def!IgeDec(k, iv[1], iv[2], inp)]
ASSUME ndJsonSerialize(IOEnv.VERIF_OUT,
         SetToSeq({Case(k, iv, inp, dir) : k \in Perms, iv \in Blocks \X Blocks, inp \in Inputs, dir \in {"enc", "dec"}}))
=============================================================================
