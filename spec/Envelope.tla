---------------------------- MODULE Envelope ----------------------------
(* C03 / C04 - the MTProto 1.0 encrypted envelope, parametric in the byte-string algebra
   (instantiated by EnvelopeToy - symbolic bytes, model-checked - and EnvelopeTerm - terms the
   Go harness interprets with real SHA-1 / AES).

     packet  = auth_key_id(8) ++ msg_key(16) ++ IGE_enc(aes_key, aes_iv, plain ++ padding)
     plain   = salt(8 LE) ++ session_id(8 LE) ++ msg_id(8 LE) ++ seq_no(4 LE) ++ len(4 LE) ++ body
     padding = fewer than 16 bytes, up to the next multiple of 16 (content unspecified)
     msg_key = SHA1(plain)[4:20]         auth_key_id = SHA1(auth_key)[12:20]
     key/iv  = SHA1 mix of msg_key and auth_key slices at offset x,
               x = 0 for client -> server, x = 8 for server -> client *)
EXTENDS Integers, Sequences

CONSTANTS Sha1(_), IgeE(_, _, _), Cat(_), Slice(_, _, _), LE(_, _), PadBytes(_),
          Num(_)      \* injection of a specification-level integer into the algebra's numbers

X(dir) == IF dir = "c2s" THEN 0 ELSE 8
Pad16(len) == (16 - (len % 16)) % 16

Plain(salt, sid, mid, seq, n, body) == Cat(<<LE(8, salt), LE(8, sid), LE(8, mid), LE(4, seq), LE(4, Num(n)), body>>)
MsgKeyOf(plain) == Slice(Sha1(plain), 4, 20)
KeyId(key) == Slice(Sha1(key), 12, 20)

ShaA(key, mk, x) == Sha1(Cat(<<mk, Slice(key, x, x + 32)>>))
ShaB(key, mk, x) == Sha1(Cat(<<Slice(key, 32 + x, 48 + x), mk, Slice(key, 48 + x, 64 + x)>>))
ShaC(key, mk, x) == Sha1(Cat(<<Slice(key, 64 + x, 96 + x), mk>>))
ShaD(key, mk, x) == Sha1(Cat(<<mk, Slice(key, 96 + x, 128 + x)>>))
AesKey(key, mk, x) == Cat(<<Slice(ShaA(key, mk, x), 0, 8), Slice(ShaB(key, mk, x), 8, 20), Slice(ShaC(key, mk, x), 4, 16)>>)
AesIV(key, mk, x)  == Cat(<<Slice(ShaA(key, mk, x), 8, 20), Slice(ShaB(key, mk, x), 0, 8),
                            Slice(ShaC(key, mk, x), 16, 20), Slice(ShaD(key, mk, x), 0, 8)>>)

\* the packet for the given fields; `n` is the body length in bytes, `declared` the value
\* written into the length field (= n for an honest sender)
SealDeclared(dir, key, salt, sid, mid, seq, n, declared, body, mkOver) ==
  LET plain == Plain(salt, sid, mid, seq, declared, body)
      mk == MsgKeyOf(mkOver)
  IN Cat(<<KeyId(key), mk, IgeE(AesKey(key, mk, X(dir)), AesIV(key, mk, X(dir)),
                                 Cat(<<plain, PadBytes(Pad16(32 + n))>>))>>)
Seal(dir, key, salt, sid, mid, seq, n, body) ==
  SealDeclared(dir, key, salt, sid, mid, seq, n, n, body, Plain(salt, sid, mid, seq, n, body))
PacketLen(n) == 24 + 32 + n + Pad16(32 + n)

\* key-exchange (plain-text) message: zero key id, msg id, exact body length
Unencrypted(mid, n, body) == Cat(<<LE(8, Num(0)), LE(8, mid), LE(4, Num(n)), body>>)
=============================================================================
