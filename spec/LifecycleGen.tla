---------------------------- MODULE LifecycleGen ----------------------------
(* Lifecycle generator: random behaviours of Lifecycle.tla (tlc -simulate); a finished life (all starts used and the
   application stopped, or nothing left to do) is printed as JSON for the harness. *)
EXTENDS Lifecycle, Json
VARIABLE emitted
Done == (starts = MaxStarts /\ ~up) \/ (calls = MaxCalls /\ up)
GInit == Init /\ emitted = FALSE
Emit == Done /\ ~emitted /\ emitted' = TRUE /\ PrintT(<<"LIFE", ToJson(hist)>>) /\ UNCHANGED vars
GNext == (~Done /\ Next /\ UNCHANGED emitted) \/ Emit
GSpec == GInit /\ [][GNext]_<<vars, emitted>>
=============================================================================
