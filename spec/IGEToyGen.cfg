CONSTANT MaxBlocks = 2
