CONSTANT MaxLZ = 1
