---------------------------- MODULE DeeplinkDef ----------------------------
(* C20 - resolving a Telegram link.

   A link is a structure (scheme, host, port, path segments by class, query, fragment).
   `Resolve` is the declarative meaning the property states.  The step machine below is
   shaped like telegram/deeplinks (parse -> scheme switch -> host recovery for scheme-less
   links -> ownership check -> template table tried in *some* order) and TLC checks that,
   whatever order the table is walked in (the code iterates a Go map), the machine ends in
   Resolve(link).  The case set with expected outcomes is serialised for the Go harness,
   which renders every shape to concrete strings and runs deeplinks.Resolve on them.

   Reading choices (weakest reading where the statement is silent, DESIGN section 3 rule 4):
   scheme-less link *with* a port, percent-escaped segments, and paths of two or more
   segments ending in one empty segment (a trailing slash, which many routers ignore) are `open`:
   the implementation must not panic on them but either outcome is accepted.  An empty segment
   anywhere else (leading or doubled slash) makes the path "another path shape": an error. *)
EXTENDS Integers, Sequences, FiniteSets, TLC

CONSTANTS MaxSegs,      \* longest path, in segments
          Dev           \* as-coded deviations switched on (empty in verdict runs)

Schemes  == {"", "http", "https", "tg", "ftp"}
Reserved == {"t.me", "telegram.me", "telegram.dog", "tx.me", "telesco.pe"}
Hosts    == Reserved \cup {"t.me.evil.com", "xt.me", "telegram.org", ""}
Ports    == {"", ":443"}
SegClass == {"lower", "mixed", "empty", "joinchat", "escape", "unicode"}
QF       == {"", "x"}

Paths == UNION {[1..n -> SegClass] : n \in 0..MaxSegs}
Links == [scheme : Schemes, host : Hosts, port : Ports, segs : Paths, query : QF, frag : QF]

Err     == [kind |-> "error"]
Open    == [kind |-> "open"]
User(i) == [kind |-> "user", seg |-> i]      \* username = lower-cased text of segment i
Invite(i) == [kind |-> "invite", seg |-> i]  \* token = text of segment i, verbatim

HasClass(l, c) == \E i \in 1..Len(l.segs) : l.segs[i] = c

(* ---- declarative meaning (the property) ---- *)
Resolve(l) ==
  IF l.scheme \notin {"", "http", "https"} THEN Err
  ELSE IF l.scheme = "" /\ l.port # "" THEN Open
  ELSE IF l.host \notin Reserved THEN Err
  ELSE IF Len(l.segs) = 0 THEN Err                              \* bare host
  ELSE IF HasClass(l, "escape") THEN Open
  ELSE IF Len(l.segs) = 1 THEN (IF l.segs[1] = "empty" THEN Err ELSE User(1))
  ELSE IF \E i \in 1..(Len(l.segs) - 1) : l.segs[i] = "empty" THEN Err   \* a doubled or leading slash is another path shape
  ELSE IF HasClass(l, "empty") THEN Open                                   \* one trailing slash
  ELSE IF Len(l.segs) = 2 /\ l.segs[1] = "joinchat" THEN Invite(2)
  ELSE Err

(* ---- case set for the harness ---- *)
CaseOf(l) == [scheme |-> l.scheme, host |-> l.host, port |-> l.port, segs |-> l.segs,
              query |-> l.query, frag |-> l.frag, expect |-> Resolve(l)]
=============================================================================
