---------------------------- MODULE RpcErrorDef ----------------------------
(* C17 (text part) - an rpc_error text as a structure, and the meaning the property states.

   A text is a sequence of "_"-separated tokens: upper-case words, or a parameter class
   (a token that stands for a family of concrete strings chosen by the harness).  The
   15-row prefix/suffix table is the one the property names.  `Expand` is the declared
   meaning: (message, parameter).

   Reading choices (weakest reading, DESIGN section 3 rule 4): when a text matches a table row
   but what stands between prefix and suffix is not a plain decimal number that fits an
   int (empty, signed, non-digit, huge, containing '%', several tokens) the statement only
   demands a structured error without a panic; such texts are `open`: the message may be
   the text itself or the X-form, the parameter must not be a number the text does not
   contain.  Plain digits (with or without leading zeros) up to 2^63-1 are definite. *)
EXTENDS Integers, Sequences, FiniteSets, TLC

Row(p, s) == [prefix |-> p, suffix |-> s]
Table == <<
  Row(<<"EMAIL", "UNCONFIRMED">>, <<>>),
  Row(<<"FILE", "MIGRATE">>, <<>>),
  Row(<<"FILE", "PART">>, <<"MISSING">>),
  Row(<<"FLOOD", "TEST", "PHONE", "WAIT">>, <<>>),
  Row(<<"FLOOD", "WAIT">>, <<>>),
  Row(<<"INTERDC">>, <<"CALL", "ERROR">>),
  Row(<<"INTERDC">>, <<"CALL", "RICH", "ERROR">>),
  Row(<<"NETWORK", "MIGRATE">>, <<>>),
  Row(<<"PASSWORD", "TOO", "FRESH">>, <<>>),
  Row(<<"PHONE", "MIGRATE">>, <<>>),
  Row(<<"SESSION", "TOO", "FRESH">>, <<>>),
  Row(<<"SLOWMODE", "WAIT">>, <<>>),
  Row(<<"STATS", "MIGRATE">>, <<>>),
  Row(<<"TAKEOUT", "INIT", "DELAY">>, <<>>),
  Row(<<"USER", "MIGRATE">>, <<>>) >>
Rows == 1..Len(Table)

\* parameter classes (concretised by the harness)
NumDefinite == {"#small", "#zero", "#int32max", "#int64max", "#leadzero"}
NumOpen     == {"#neg", "#plus", "#huge", "#empty", "#alpha", "#mixed", "#pct", "#space"}
ParamTok    == NumDefinite \cup NumOpen
Words       == {"WAIT", "CALL", "ERROR", "MISSING", "X", "FOO"}

IsPrefixOf(p, t) == Len(t) > Len(p) /\ SubSeq(t, 1, Len(p)) = p
IsSuffixOf(s, t) == Len(t) > Len(s) /\ SubSeq(t, Len(t) - Len(s) + 1, Len(t)) = s
Match(r, t)  == IsPrefixOf(Table[r].prefix, t) /\ IsSuffixOf(Table[r].suffix, t)
\* what stands between prefix and suffix; <<>> with Overlap when they share the "_"
Overlap(r, t) == Len(t) < Len(Table[r].prefix) + Len(Table[r].suffix) + 1
Middle(r, t) == IF Overlap(r, t) THEN <<>> ELSE SubSeq(t, Len(Table[r].prefix) + 1, Len(t) - Len(Table[r].suffix))
NumericMatch(r, t) == Match(r, t) /\ Len(Middle(r, t)) = 1 /\ Middle(r, t)[1] \in NumDefinite
XForm(r) == Table[r].prefix \o <<"X">> \o Table[r].suffix

NoParam == "none"
Expand(t) ==
  IF \E r \in Rows : NumericMatch(r, t)
    THEN LET r == CHOOSE r \in Rows : NumericMatch(r, t) IN
         [kind |-> "param", msg |-> XForm(r), param |-> Middle(r, t)[1], row |-> r]
  ELSE IF \E r \in Rows : Match(r, t) THEN [kind |-> "open"]
  ELSE [kind |-> "plain", msg |-> t, param |-> NoParam]

(* ---- the universe of texts TLC enumerates ---- *)
Heads == {Table[r].prefix : r \in Rows}
         \cup {SubSeq(Table[r].prefix, 1, Len(Table[r].prefix) - 1) : r \in Rows}   \* truncated prefix
         \cup {<<>>, <<"FOO">>}
Mids  == {<<>>} \cup {<<a>> : a \in ParamTok \cup Words}
         \cup {<<a, b>> : a \in {"#small", "#alpha", "#empty", "WAIT"}, b \in {"#small", "#alpha", "X", "CALL"}}
Tails == {Table[r].suffix : r \in Rows} \cup {<<"ERROR">>, <<"RICH", "ERROR">>, <<"MISSIN">>}
Texts == {h \o m \o s : h \in Heads, m \in Mids, s \in Tails} \ {<<>>}

CaseOf(t) == [text |-> t, expect |-> Expand(t)]
=============================================================================
