---------------------------- MODULE TLCodecGen ----------------------------
(* C01 / C02 / C15 - schema-directed case generation.  For every definition of the shipped
   schemas (layout = SchemaDefs!T read from the .tl text, not from Go) TLC builds the pattern
   family of values and evaluates TLCodec!EncObj; value and byte image go to the harness, which
   builds the Go value by field position, compares tl.Marshal with the image byte for byte,
   decodes the image and the Marshal output back, and mutates the image (C15).

   Patterns: all conditional groups absent / all present / each group alone / each group removed /
   every zero-member of every shared group / present-but-empty conditional vectors / string and
   bytes lengths around the 1- and 4-byte header switch, every length mod 4, 65535/65536 and
   2^24-1 / 2^24 (refused) / scalar extremes / enum members / nested objects / 128- and 256-bit
   integers with leading zero bytes. *)
EXTENDS SchemaDefs
CONSTANTS Stride, Seed, StrLens, BigLens

C == INSTANCE TLCodec

LayoutOf(k) == [j \in 1..Len(Schema[k].params) |->
                  LET p == Schema[k].params[j] IN
                  [kind |-> ParamKind(p), vec |-> p.vec \/ p.barevec, barevec |-> p.barevec, bit |-> p.bit]]

Prim == {"int", "long", "double", "string", "bytes", "true", "int128", "int256", "Bool", "#"}
\* definitions whose values the generic codec is responsible for
SpecialNames == {"msg_container", "gzip_packed", "msg_copy", "rpc_result", "future_salts", "message"}
Encodable0(k) == /\ ~Schema[k].generic /\ Schema[k].name \notin SpecialNames
                 /\ \A j \in 1..Len(Schema[k].params) :
                      LET p == Schema[k].params[j] IN ~p.percent /\ (p.base \in Prim \/ (p.boxed /\ TypeCtors(p.base) # {}))
AllTypes == {Schema[k].result : k \in {d \in Defs : Schema[d].section = "types"}}
ReqObjTypes(k) == {Schema[k].params[j].base : j \in {m \in 1..Len(Schema[k].params) :
                      LET p == Schema[k].params[m] IN ParamKind(p) = "object" /\ ~p.flagged /\ ~p.vec /\ ~p.barevec}}
Grow(R) == R \cup {t \in AllTypes : \E k \in TypeCtors(t) : Encodable0(k) /\ ReqObjTypes(k) \subseteq R}
R0 == Grow({}) R1 == Grow(R0) R2 == Grow(R1) R3 == Grow(R2) R4 == Grow(R3) R5 == Grow(R4)
Levels == <<R0, R1, R2, R3, R4, R5>>
Level(t) == IF t \in R0 THEN 0 ELSE CHOOSE n \in 1..5 : t \in Levels[n + 1] /\ t \notin Levels[n]
Below(t) == IF Level(t) = 0 THEN {} ELSE Levels[Level(t)]
MinCtor(t) == CHOOSE k \in TypeCtors(t) : Encodable0(k) /\ ReqObjTypes(k) \subseteq Below(t)
                 /\ \A k2 \in TypeCtors(t) : (Encodable0(k2) /\ ReqObjTypes(k2) \subseteq Below(t)) => k <= k2
NotWireUsed == {"destroy_session_ok", "destroy_session_none", "rpc_drop_answer", "get_future_salts", "ping_delay_disconnect",
                "destroy_session", "http_wait", "future_salt", "future_salts", "rpc_answer_unknown", "rpc_answer_dropped_running",
                "rpc_answer_dropped"}
Encodable(k) == Encodable0(k) /\ ReqObjTypes(k) \subseteq R5 /\ ~(Schema[k].file = "mtproto.tl" /\ Schema[k].name \in NotWireUsed)

Obj(k, fs) == [k |-> "obj", id |-> <<Schema[k].id[1], Schema[k].id[2]>>, idhex |-> Schema[k].idhex, bare |-> FALSE,
               layout |-> LayoutOf(k), f |-> fs]
DataIdx(k) == {j \in 1..Len(Schema[k].params) : Schema[k].params[j].base # "#"}
DataSeq(k) == SetToSortSeq(DataIdx(k), <)
EnumMember(t, n) == LET cs == SetToSortSeq(TypeCtors(t), <) IN Obj(cs[(n % Len(cs)) + 1], <<>>)

\* the inner query of a generic wrapper ({X:Type} ... query:!X): help.getConfig, a function without parameters
InnerQuery == LET S == {k \in Defs : Schema[k].name = "help.getConfig"} IN CHOOSE k \in S : TRUE

RECURSIVE MinVal(_)
MinScalar(p) ==
  CASE p.base = "int" -> [k |-> "int", c |-> "zero"] [] p.base = "long" -> [k |-> "long", c |-> "zero"]
    [] p.base = "double" -> [k |-> "double", c |-> "zero"] [] p.base = "string" -> [k |-> "str", len |-> 0, tag |-> 0]
    [] p.base = "bytes" -> [k |-> "bytes", len |-> 0, tag |-> 0] [] p.base = "Bool" -> [k |-> "bool", b |-> FALSE]
    [] p.base = "true" -> [k |-> "true", b |-> FALSE]
    [] p.base = "int128" -> [k |-> "big", w |-> 16, lz |-> 0, tag |-> 1] [] p.base = "int256" -> [k |-> "big", w |-> 32, lz |-> 0, tag |-> 2]
    [] ParamKind(p) = "enum" -> EnumMember(p.base, 0)
    [] p.base = "!X" -> Obj(InnerQuery, <<>>)
    [] OTHER -> MinVal(p.base)
MinField(p) == IF p.flagged THEN (IF p.base = "true" THEN [k |-> "true", b |-> FALSE] ELSE [k |-> "absent"])
               ELSE IF p.vec \/ p.barevec THEN [k |-> "vec", e |-> <<>>] ELSE MinScalar(p)
MinVal(t) == LET k == MinCtor(t) ds == DataSeq(k) IN Obj(k, [j \in 1..Len(ds) |-> MinField(Schema[k].params[ds[j]])])

FullScalar(p, n) ==
  CASE p.base = "int" -> [k |-> "int", c |-> "pos", n |-> n % 900] [] p.base = "long" -> [k |-> "long", c |-> "pos", n |-> n % 900]
    [] p.base = "double" -> [k |-> "double", c |-> "pat"] [] p.base = "string" -> [k |-> "str", len |-> 3 + (n % 3), tag |-> n]
    [] p.base = "bytes" -> [k |-> "bytes", len |-> 5 + (n % 4), tag |-> n] [] p.base = "Bool" -> [k |-> "bool", b |-> TRUE]
    [] p.base = "true" -> [k |-> "true", b |-> TRUE]
    [] p.base = "int128" -> [k |-> "big", w |-> 16, lz |-> n % 3, tag |-> n] [] p.base = "int256" -> [k |-> "big", w |-> 32, lz |-> n % 3, tag |-> n]
    [] ParamKind(p) = "enum" -> EnumMember(p.base, n)
    [] p.base = "!X" -> Obj(InnerQuery, <<>>)
    [] OTHER -> MinVal(p.base)
SecondScalar(p, n) == IF p.base = "int" THEN [k |-> "int", c |-> "pat"] ELSE IF p.base = "long" THEN [k |-> "long", c |-> "pat"] ELSE FullScalar(p, n + 1)
FullField(p, n) == IF p.vec \/ p.barevec THEN [k |-> "vec", e |-> <<FullScalar(p, n), SecondScalar(p, n)>>] ELSE FullScalar(p, n)
ZeroScalar(p) == MinScalar(p)
Zeroable(p) == ~(p.vec \/ p.barevec) /\ p.base \in {"int", "long", "double", "string"}

\* the value of definition k with the conditional groups in S present; required fields per mode;
\* over: function from data-field position to an overriding value
Base(k, S, mode, over) ==
  LET ds == DataSeq(k) IN
  Obj(k, [j \in 1..Len(ds) |->
            LET p == Schema[k].params[ds[j]] IN
            IF j \in DOMAIN over THEN over[j]
            ELSE IF p.flagged THEN (IF p.bit \in S THEN FullField(p, j + k) ELSE MinField(p))
            ELSE IF mode = "min" THEN MinField(p) ELSE FullField(p, j + k)])

Bits(k) == {Schema[k].params[j].bit : j \in DataIdx(k)} \ {-1}
Pos(k, j) == Cardinality({m \in DataIdx(k) : m <= j})        \* data-field position of param j
Group(k, b) == {j \in DataIdx(k) : Schema[k].params[j].bit = b /\ Schema[k].params[j].base # "true"}
Shared(k) == {b \in Bits(k) : Cardinality(Group(k, b)) >= 2}
CondVecs(k) == {j \in DataIdx(k) : Schema[k].params[j].flagged /\ (Schema[k].params[j].vec \/ Schema[k].params[j].barevec)}
StrParams(k) == {j \in DataIdx(k) : Schema[k].params[j].base \in {"string", "bytes"} /\ ~Schema[k].params[j].vec /\ ~Schema[k].params[j].barevec}
ScalarParams(k) == {j \in DataIdx(k) : Schema[k].params[j].base \in {"int", "long", "double"} /\ ~Schema[k].params[j].vec}
EnumParams(k) == {j \in DataIdx(k) : ParamKind(Schema[k].params[j]) = "enum" /\ ~Schema[k].params[j].vec}
Selected(k) == (k + Seed) % Stride = 0
StrVal(p, len, tag) == [k |-> IF p.base = "string" THEN "str" ELSE "bytes", len |-> len, tag |-> tag]
PresentFor(k, j) == IF Schema[k].params[j].flagged THEN {Schema[k].params[j].bit} ELSE {}

IsVecParam(p) == p.vec \/ p.barevec
VecObjParams(k) == {j \in DataIdx(k) : IsVecParam(Schema[k].params[j]) /\ ParamKind(Schema[k].params[j]) = "object"}
VecParamsOf(ck) == {jj \in DataIdx(ck) : IsVecParam(Schema[ck].params[jj])}
CtorsWithVec(t) == {ck \in TypeCtors(t) : Encodable(ck) /\ VecParamsOf(ck) # {}}
InnerWithVec(t, i) ==
  LET ck == CHOOSE c \in CtorsWithVec(t) : \A c2 \in CtorsWithVec(t) : c <= c2
      jj == CHOOSE m \in VecParamsOf(ck) : \A m2 \in VecParamsOf(ck) : m <= m2
  IN Base(ck, Bits(ck), "full", Pos(ck, jj) :> [k |-> "vec", e |-> [m \in 1..(i + 2) |-> FullScalar(Schema[ck].params[jj], m + 10 * i)]])

Case(k, pat, v) == [name |-> Schema[k].name, idhex |-> Schema[k].idhex, pat |-> pat, val |-> v]
Family(k) ==
  LET B == Bits(k)
      none == <<>>
      basic == {Case(k, "min", Base(k, {}, "min", none)), Case(k, "full", Base(k, B, "full", none))}
      shared == {Case(k, "shared-zero", Base(k, B, "full", Pos(k, j) :> ZeroScalar(Schema[k].params[j]))) :
                   j \in {m \in UNION {Group(k, b) : b \in Shared(k)} : Zeroable(Schema[k].params[m])}}
      sharedOnly == {Case(k, "shared-alone", Base(k, {b}, "min", none)) : b \in Shared(k)}
      \* a bit carried by a `true` flag and by value fields: with the flag set and the value fields zero the group is present
      \* (the flag is one of its fields), so the zero values travel
      trueZero == {Case(k, "true-shared-zero", Base(k, {b}, "min",
                      [q \in {Pos(k, j) : j \in {m \in Group(k, b) : Zeroable(Schema[k].params[m])}} |->
                         LET j == CHOOSE m \in Group(k, b) : Pos(k, m) = q IN ZeroScalar(Schema[k].params[j])])) :
                     b \in {x \in B : Group(k, x) # {} /\ (\E m \in Group(k, x) : Zeroable(Schema[k].params[m]))
                                        /\ \E j \in DataIdx(k) : Schema[k].params[j].bit = x /\ Schema[k].params[j].base = "true"}}
      emptyvec == {Case(k, "empty-vector", Base(k, {Schema[k].params[j].bit}, "min", Pos(k, j) :> [k |-> "vec", e |-> <<>>])) : j \in CondVecs(k)}
      alone == IF Selected(k) THEN {Case(k, "only-bit", Base(k, {b}, "full", none)) : b \in B}
                                   \cup {Case(k, "without-bit", Base(k, B \ {b}, "full", none)) : b \in B} ELSE {}
      strs == IF Selected(k) /\ StrParams(k) # {}
                THEN \* the first string and the first bytes parameter (the writers differ)
                     LET FirstOf(base) == {m \in StrParams(k) : Schema[k].params[m].base = base /\
                                             \A m2 \in StrParams(k) : Schema[k].params[m2].base = base => m <= m2} IN
                     UNION {{Case(k, "string-length", Base(k, B, "full", Pos(k, j) :> StrVal(Schema[k].params[j], n, n % 7))) :
                        n \in {x \in StrLens : x > 0 \/ ~Schema[k].params[j].flagged \/ Schema[k].params[j].base = "bytes"}} :
                           j \in FirstOf("string") \cup FirstOf("bytes")} ELSE {}
      scal == IF Selected(k) /\ ScalarParams(k) # {}
                THEN {Case(k, "scalar-class", Base(k, B, "full",
                        [q \in {Pos(k, j) : j \in ScalarParams(k)} |->
                           LET j == CHOOSE m \in ScalarParams(k) : Pos(k, m) = q IN
                           [k |-> Schema[k].params[j].base, c |-> c]])) : c \in {"min", "max", "minus1", "one"}} ELSE {}
      enums == IF Selected(k) THEN {Case(k, "enum-member", Base(k, B, "full", Pos(k, j) :> EnumMember(Schema[k].params[j].base, n))) :
                                      j \in EnumParams(k), n \in 0..3} ELSE {}
      \* vectors inside the items of a vector, of growing sizes (3 items holding 3, 4 and 5): the writer of the outer vector
      \* must not be disturbed by the writing of the inner ones
      nested == {Case(k, "nested-vectors", Base(k, B, "full", Pos(k, j) :> [k |-> "vec", e |-> [i \in 1..3 |-> InnerWithVec(Schema[k].params[j].base, i)]])) :
                   j \in {m \in VecObjParams(k) : CtorsWithVec(Schema[k].params[m].base) # {}}}
  IN basic \cup shared \cup sharedOnly \cup trueZero \cup emptyvec \cup alone \cup strs \cup scal \cup enums \cup nested

\* strings at and beyond the format's limits: one string carrier and one bytes carrier
HasStr(k, base) == \E m \in StrParams(k) : Schema[k].params[m].base = base
Carriers(base) == {k \in Defs : Encodable(k) /\ Schema[k].file = "api_121.tl" /\ HasStr(k, base)}
Carrier(base) == CHOOSE k \in Carriers(base) : \A k2 \in Carriers(base) : k <= k2
FirstStr(k, base) == LET S == {m \in StrParams(k) : Schema[k].params[m].base = base} IN CHOOSE m \in S : \A m2 \in S : m <= m2
BigCases(base) ==
  LET k == Carrier(base)
      j == FirstStr(k, base)
  IN {Case(k, "string-limit", Base(k, Bits(k), "min", Pos(k, j) :> StrVal(Schema[k].params[j], n, 3))) : n \in BigLens}

\* one message holding more than a thousand values of one kind (a contact list, a dialog list, future salts): per element kind -
\* a type with a single constructor (a concrete pointer in Go), a type with several (an interface), int, long, string - the
\* first LongCount definitions of the API schema that carry such a vector
LongLen == 1100
LongCount == 2
ElemClass(p) == IF ParamKind(p) = "object" THEN (IF Cardinality(TypeCtors(p.base)) = 1 THEN "single" ELSE "multi")
                ELSE IF p.base \in {"int", "long", "string"} THEN p.base ELSE "other"
LongParams(k, cls) == {j \in DataIdx(k) : IsVecParam(Schema[k].params[j]) /\ ElemClass(Schema[k].params[j]) = cls}
LongCarriers(cls) == LET S == {k \in Defs : Encodable(k) /\ Schema[k].file = "api_121.tl" /\ LongParams(k, cls) # {}}
                         q == SetToSortSeq(S, <)
                     IN {q[i] : i \in 1..(IF Len(q) < LongCount THEN Len(q) ELSE LongCount)}
LongCases == IF BigLens = {} THEN {} ELSE
  UNION {{LET j == CHOOSE m \in LongParams(k, cls) : \A m2 \in LongParams(k, cls) : m <= m2
              one == FullScalar(Schema[k].params[j], 1) IN    \* objects: the minimal value of the type, a thousand times
          Case(k, "long-vector", Base(k, Bits(k), "full", Pos(k, j) :> [k |-> "vec", e |-> [m \in 1..LongLen |->
                 IF cls \in {"single", "multi"} THEN one ELSE FullScalar(Schema[k].params[j], m)]])) :
             k \in LongCarriers(cls)} : cls \in {"single", "multi", "int", "long", "string"}}

RECURSIVE Strip(_)
Strip(v) == IF v.k = "obj" THEN [k |-> "obj", id |-> v.id, idhex |-> v.idhex, f |-> [j \in 1..Len(v.f) |-> Strip(v.f[j])]]
            ELSE IF v.k = "vec" THEN [k |-> "vec", e |-> [j \in 1..Len(v.e) |-> Strip(v.e[j])]] ELSE v
Emit(c) == [name |-> c.name, idhex |-> c.idhex, pat |-> c.pat, val |-> Strip(c.val),
            toolarge |-> C!TooLarge(c.val),
            img |-> IF C!TooLarge(c.val) THEN <<>> ELSE C!EncObj(c.val)]

(* ---- C13: method contracts ---- *)
\* for every function: the request image of a call with all arguments present and distinguishable by
\* position, and an answer of the declared result kind (object, Bool, vector) with its image
ResultKind(k) == IF Schema[k].resultvec THEN "vec" ELSE IF Schema[k].resultbase = "Bool" THEN "bool" ELSE "obj"
ResultParam(k) == [name |-> "result", type |-> Schema[k].result, base |-> Schema[k].resultbase, vec |-> FALSE, barevec |-> FALSE,
                   flagged |-> FALSE, bit |-> -1, boxed |-> TRUE, percent |-> FALSE]
ResultOK(k) == LET b == Schema[k].resultbase IN b \in {"Bool", "int", "long", "string", "bytes"} \/ (TypeCtors(b) # {} /\ b \in R5)
ResultVal(k) ==
  LET p == ResultParam(k) IN
  IF Schema[k].resultvec THEN [k |-> "vec", e |-> <<FullScalar(p, k), FullScalar(p, k + 1)>>]
  ELSE IF p.base = "Bool" THEN [k |-> "bool", b |-> TRUE]
  ELSE IF IsEnumType(p.base) THEN EnumMember(p.base, k) ELSE MinVal(p.base)
ResultDesc(k) == [kind |-> "object", vec |-> Schema[k].resultvec, barevec |-> FALSE, bit |-> -1]
Functions == {k \in Defs : Schema[k].section = "functions" /\ Schema[k].file = "api_121.tl" /\ Encodable(k) /\ ResultOK(k)}
MethodCase(k) ==
  LET call == Base(k, Bits(k), "full", <<>>) res == ResultVal(k) IN
  [name |-> Schema[k].name, idhex |-> Schema[k].idhex, call |-> Strip(call), callimg |-> C!EncObj(call),
   reskind |-> ResultKind(k), res |-> Strip(res), resimg |-> C!EncVal(ResultDesc(k), res),
   \* every constructor of the declared result type is a legitimate answer: the method's result type must admit each
   resall |-> IF TypeCtors(Schema[k].resultbase) = {} THEN <<>>
              ELSE LET cs == SetToSortSeq(TypeCtors(Schema[k].resultbase), <) IN [j \in 1..Len(cs) |-> Schema[cs[j]].idhex]]
MethodCases == IF IOEnv.VERIF_METHODS = "" THEN <<>> ELSE [j \in 1..Cardinality(Functions) |-> MethodCase(SetToSeq(Functions)[j])]
ASSUME IOEnv.VERIF_METHODS = "" \/ ndJsonSerialize(IOEnv.VERIF_METHODS, MethodCases)

\* the generic request wrappers (hand-written in Go): all parameters present, distinguishable by position
Wrappers == {k \in Defs : Schema[k].generic /\ \A j \in 1..Len(Schema[k].params) :
               LET p == Schema[k].params[j] IN p.base \in Prim \cup {"!X"} \/ (p.boxed /\ p.base \in R5)}
WrapperCases == {Case(k, "wrapper", Base(k, Bits(k), "full", <<>>)) : k \in Wrappers}

(* ---- the hand-written codecs of MTProto service objects (C01 / C02) ----
   msg_container#73f1f8dc messages:vector<%Message>     message msg_id:long seqno:int bytes:int body:Object
   rpc_result#f35c6d01 req_msg_id:long result:Object    gzip_packed#3072cfa1 packed_data:bytes
   `bytes` is the length of the body; the body is the boxed serialisation of the inner object.  The bytes of
   gzip_packed are not fixed by the schema (any gzip stream of the inner object's serialisation). *)
MtDef(n) == CHOOSE k \in Defs : Schema[k].name = n /\ Schema[k].file = "mtproto.tl"
InnerVals == <<Base(MtDef("pong"), {}, "full", <<>>), Base(MtDef("msgs_ack"), {}, "full", <<>>),
               Base(MtDef("new_session_created"), {}, "full", <<>>)>>
MsgIdChunk(n) == [t |-> "q", v |-> <<4 * (500 + n), 0, 0, 11>>]
ItemImg(j) == <<MsgIdChunk(j), C!WInt(2 * j + 1), C!WInt(C!ImageLen(C!EncObj(InnerVals[j])))>> \o C!EncObj(InnerVals[j])
ContainerCase(m) ==
  [name |-> "msg_container", idhex |-> "73f1f8dc", pat |-> "container", toolarge |-> FALSE,
   val |-> [k |-> "container", items |-> [j \in 1..m |-> [n |-> j, seq |-> 2 * j + 1, body |-> Strip(InnerVals[j]), bodyimg |-> C!EncObj(InnerVals[j])]]],
   img |-> <<C!W(<<29681, 63708>>), C!WInt(m)>> \o C!Flat([j \in 1..m |-> ItemImg(j)])]
RpcResultCase(j) ==
  [name |-> "rpc_result", idhex |-> "f35c6d01", pat |-> "rpc-result", toolarge |-> FALSE,
   val |-> [k |-> "rpcresult", n |-> j, obj |-> Strip(InnerVals[j])],
   img |-> <<C!W(<<62300, 27905>>), MsgIdChunk(j)>> \o C!EncObj(InnerVals[j])]
GzipCase(j) ==
  [name |-> "gzip_packed", idhex |-> "3072cfa1", pat |-> "gzip", toolarge |-> FALSE,
   val |-> [k |-> "gzip", obj |-> Strip(InnerVals[j]), objimg |-> C!EncObj(InnerVals[j])], img |-> <<>>]
SpecialCases == [j \in 1..4 |-> ContainerCase(j - 1)] \o [j \in 1..3 |-> RpcResultCase(j)] \o [j \in 1..3 |-> GzipCase(j)]

Todo == {k \in Defs : Encodable(k)}
AllCases == UNION {Family(k) : k \in Todo} \cup BigCases("string") \cup BigCases("bytes") \cup WrapperCases \cup LongCases
Skipped == {Schema[k].name : k \in Defs \ Todo}

ASSUME ndJsonSerialize(IOEnv.VERIF_OUT, [j \in 1..Cardinality(AllCases) |-> Emit(SetToSeq(AllCases)[j])] \o SpecialCases)
ASSUME PrintT(<<"definitions", Cardinality(Todo), "cases", Cardinality(AllCases), "skipped", Skipped>>)
=============================================================================
