SPECIFICATION Spec
CONSTANTS Loaders = {l1, l2}
 Sessions = {s1, s2}
 MaxClock = 4
 Dev = {}
INVARIANTS LoadReturnsLastStore CacheCoherent
VIEW view
CHECK_DEADLOCK FALSE
