---------------------------- MODULE ClientTrace ----------------------------
(* Observable-level specification of the session engine (ClientObs) as a trace evaluator.

   The harness (`verif session`) runs the real client against the independent reference
   server and records, under one lock and in causal order, what a user or the peer can see:
   Call / Return of every RPC, every frame as the server decrypted it (Wire), everything the
   server sent (SrvSend), salt rotations, session-store writes, connections, time-outs with
   goroutine evidence, process death.  Ids are replaced by their ranks (TLC integers are 32
   bit); nothing else is inferred outside this module.

   Every scenario is replayed through the state below and each event is checked against
   what the listed properties demand; an event that cannot be explained adds a verdict
   [sc, pos, kind] to `bad`, and the evaluation goes on (deterministic, one state per line).

     C09  Return carries the result whose req_msg_id names a frame of the caller's own
          request, once; vectors arrive typed; rpc_error as structured error
     C10  wire ids: multiple of 4, from the clock, strictly increasing in arrival order;
          seq_no odd for content-related, even for acknowledgements, never decreasing;
          every content-related server message is acknowledged (at quiescence)
     C11  a rejected frame's request is sent again (under the new salt), an accepted one
          never; every call returns; the adopted salt reaches the session store
     C16  the process stays alive, probes complete, reconnect re-uses the key
     C17  PHONE_MIGRATE_X: the request is repeated at the other data centre            *)
EXTENDS Integers, Sequences, FiniteSets, TLC, Json, IOUtils

Trace == ndJsonDeserialize(IOEnv.VERIF_TRACE)

VARIABLES i,        \* next line
          sc,       \* current scenario id
          lastId, lastSeq,
          open,     \* caller -> [tag, kind]          calls in progress
          frames,   \* wire id -> [tag, st]           st: accepted | rejected | answered | returned | migrate
          ans,      \* wire id -> value the server answered that frame with
          toAck,    \* content-related server msg ids not yet acknowledged
          sentIds,  \* all content-related server msg ids
          resend,   \* tags whose latest frame was rejected (or answered PHONE_MIGRATE) and must be sent again
          wantSalt, \* salt the client has been told to adopt (rank; 0 = none)
          stored,   \* last salt written to the session store (rank; 0 = none)
          alive, judgeAcks,
          updates,  \* well-formed update objects pushed by the server and not yet surfaced (handler / warning)
          keyHeld,  \* the client holds an auth key (it connected, or started on a stored session)
          home,     \* data centre the requests belong to: 1, or 2 after the server answered PHONE_MIGRATE_2
          storedHome, \* data centre of the address in the session store (a restarted client starts there)
          srvNow,   \* the server's current salt (rank)
          resumed,  \* the application has just started again: its first request shows which salt it resumed with
          bad
vars == <<i, sc, lastId, lastSeq, open, frames, ans, toAck, sentIds, resend, wantSalt, stored, alive, judgeAcks, updates, keyHeld, home, storedHome, srvNow, resumed, bad>>

Has(f, k) == k \in DOMAIN f
Ev == Trace[i]
Is(e) == i <= Len(Trace) /\ Ev.e = e /\ i' = i + 1
Note(kind) == Append(bad, [sc |-> sc, pos |-> i, kind |-> kind])
Notes(kinds) == bad \o [k \in 1..Len(kinds) |-> [sc |-> sc, pos |-> i, kind |-> kinds[k]]]
SelectKinds(conds) == \* conds: sequence of <<BOOLEAN, kind>>; the kinds whose condition holds
  LET RECURSIVE F(_) F(k) == IF k > Len(conds) THEN <<>> ELSE (IF conds[k][1] THEN <<conds[k][2]>> ELSE <<>>) \o F(k + 1) IN F(1)

Init == /\ i = 1 /\ sc = 0 /\ lastId = 0 /\ lastSeq = 0 /\ open = <<>> /\ frames = <<>> /\ ans = <<>>
        /\ toAck = {} /\ sentIds = {} /\ resend = {} /\ wantSalt = 0 /\ stored = 0 /\ alive = TRUE /\ judgeAcks = TRUE
        /\ updates = 0 /\ keyHeld = FALSE /\ home = 1 /\ storedHome = 1 /\ srvNow = 0 /\ resumed = FALSE /\ bad = <<>>

Reset == /\ Is("Reset") /\ sc' = Ev.sc
         /\ lastId' = 0 /\ lastSeq' = 0 /\ open' = <<>> /\ frames' = <<>> /\ ans' = <<>> /\ toAck' = {} /\ sentIds' = {}
         /\ resend' = {} /\ wantSalt' = 0 /\ stored' = 0 /\ alive' = TRUE /\ judgeAcks' = TRUE /\ updates' = 0 /\ keyHeld' = FALSE /\ home' = 1 /\ storedHome' = 1 /\ srvNow' = 0 /\ resumed' = FALSE /\ UNCHANGED bad

Call == /\ Is("Call")
        /\ open' = (Ev.c :> [tag |-> Ev.tag, kind |-> Ev.kind]) @@ open
        /\ bad' = IF Has(open, Ev.c) THEN Note("harness:call-while-open") ELSE bad
        /\ UNCHANGED <<srvNow, resumed, keyHeld, home, storedHome, sc, lastId, lastSeq, frames, ans, toAck, sentIds, resend, wantSalt, stored, alive, judgeAcks, updates>>

(* ---- frames the server received ---- *)
IdChecks(t, content) == SelectKinds(<<
   <<t.mod4 # 0, "msgid-not-multiple-of-4">>,
   <<~t.clock, "msgid-not-from-clock">>,
   <<~t.first /\ t.id <= lastId, "msgid-not-increasing">>,
   <<content /\ t.seq % 2 = 0, "seqno-even-for-content">>,
   <<~content /\ t.seq % 2 = 1, "seqno-odd-for-ack">>,
   <<~t.first /\ t.seq < lastSeq, "seqno-decreasing">> >>)
Track(t) == /\ lastId' = IF t.id > lastId THEN t.id ELSE lastId
            /\ lastSeq' = t.seq

TagOpen(tag) == \E c \in DOMAIN open : open[c].tag = tag
FramesOf(tag) == {id \in DOMAIN frames : frames[id].tag = tag}

WireReq ==
  /\ Is("Wire") /\ Ev.kind = "req"
  /\ LET t == Ev
         prior == FramesOf(t.tag)
         dupl == \E id \in prior : frames[id].st \in {"accepted", "answered", "returned"}
     IN /\ bad' = Notes(IdChecks(t, TRUE) \o SelectKinds(<<
                     <<~TagOpen(t.tag), "request-nobody-asked-for">>,
                     <<dupl, "accepted-request-resent">>,
                     <<Has(frames, t.id), "msgid-reused">>,
                     <<home = 2 /\ t.conn < 1000, "request-sent-to-the-old-data-centre">>,
                     \* the store held the server's current salt when the application started again: it is the one to use
                     <<resumed /\ stored # 0 /\ stored = srvNow /\ ~t.saltok, "resumed-without-the-stored-salt">> >>))
        /\ frames' = (t.id :> [tag |-> t.tag, st |-> IF t.saltok THEN "accepted" ELSE "rejected"]) @@ frames
        /\ resend' = IF t.saltok THEN resend \ {t.tag} ELSE resend \cup {t.tag}
        /\ Track(t)
  /\ resumed' = FALSE /\ UNCHANGED <<srvNow, keyHeld, home, storedHome, sc, open, ans, toAck, sentIds, wantSalt, stored, alive, judgeAcks, updates>>

WireAck ==
  /\ Is("Wire") /\ Ev.kind = "ack"
  /\ LET t == Ev
         ids == {t.acks[k] : k \in 1..Len(t.acks)}
     IN /\ bad' = Notes(IdChecks(t, FALSE) \o SelectKinds(<< <<~(ids \subseteq sentIds), "ack-of-unknown-id">> >>))
        /\ toAck' = toAck \ ids
        /\ Track(t)
  /\ UNCHANGED <<srvNow, resumed, keyHeld, home, storedHome, sc, open, frames, ans, sentIds, resend, wantSalt, stored, alive, judgeAcks, updates>>

WireOther ==
  /\ Is("Wire") /\ Ev.kind \in {"ping", "other"}
  /\ bad' = Notes(IdChecks(Ev, TRUE))
  /\ Track(Ev)
  /\ UNCHANGED <<srvNow, resumed, keyHeld, home, storedHome, sc, open, frames, ans, toAck, sentIds, resend, wantSalt, stored, alive, judgeAcks, updates>>

WireUnreadable ==
  /\ Is("Wire") /\ Ev.kind = "unreadable"
  /\ bad' = Note("frame-server-cannot-open")
  /\ UNCHANGED <<srvNow, resumed, keyHeld, home, storedHome, sc, lastId, lastSeq, open, frames, ans, toAck, sentIds, resend, wantSalt, stored, alive, judgeAcks, updates>>

(* ---- what the server sent ---- *)
\* the one error that is handled, not returned: PHONE_MIGRATE_<number>; without a number it is an error like any other
IsMigrate(v) == v.msg = "PHONE_MIGRATE_X" /\ v.param # "<nil>"
\* a result for frame `req`
Answered(fr, an, rs, item) ==
  IF Has(fr, item.req)
    THEN [fr |-> [fr EXCEPT ![item.req].st = IF IsMigrate(item.val) THEN "migrate" ELSE "answered"],
          an |-> (item.req :> item.val) @@ an,
          rs |-> IF IsMigrate(item.val) THEN rs \cup {fr[item.req].tag} ELSE rs]
    ELSE [fr |-> fr, an |-> an, rs |-> rs]
RECURSIVE AnswerAll(_, _, _, _, _)
AnswerAll(fr, an, rs, items, k) ==
  IF k > Len(items) THEN [fr |-> fr, an |-> an, rs |-> rs]
  ELSE LET x == Answered(fr, an, rs, items[k]) IN AnswerAll(x.fr, x.an, x.rs, items, k + 1)

Unreadable == {"unknown_ctor", "truncated", "empty_body", "code404", "garbage_frame", "short_frame"}
SrvSend ==
  /\ Is("SrvSend")
  /\ LET t == Ev
         items == IF t.t = "result" THEN <<[sid |-> t.sid, content |-> t.content, req |-> t.req, val |-> t.val, what |-> ""]>>
                  ELSE IF t.t = "container" THEN t.items ELSE <<>>
         x == AnswerAll(frames, ans, resend, items, 1)
         newContent == (IF t.content THEN {t.sid} ELSE {}) \cup {items[k].sid : k \in {j \in 1..Len(items) : items[j].content}}
     IN /\ frames' = x.fr /\ ans' = x.an /\ resend' = x.rs
        /\ toAck' = toAck \cup newContent /\ sentIds' = sentIds \cup newContent
        /\ wantSalt' = IF t.t = "badsalt" \/ (t.t = "push" /\ t.newsalt > 0) THEN t.newsalt ELSE wantSalt
        \* whether a body the client cannot read must be acknowledged is left open
        /\ judgeAcks' = (judgeAcks /\ ~(t.t = "push" /\ t.what \in Unreadable)
                                   /\ ~(\E k \in 1..Len(items) : items[k].what \in Unreadable))
        /\ updates' = IF t.t = "push" /\ t.what \in {"api_object", "update_short", "gzip_update"} THEN updates + 1 ELSE updates
        \* PHONE_MIGRATE_2: from now on the requests belong to the second data centre
        /\ home' = IF \E k \in 1..Len(items) : IsMigrate(items[k].val) THEN 2 ELSE home
  /\ UNCHANGED <<sc, lastId, lastSeq, open, stored, alive, keyHeld, storedHome, srvNow, resumed, bad>>

Rotate == Is("Rotate") /\ srvNow' = Ev.salt /\ UNCHANGED <<resumed, keyHeld, home, storedHome, sc, lastId, lastSeq, open, frames, ans, toAck, sentIds, resend, wantSalt, stored, alive, judgeAcks, updates, bad>>
\* a hard close (reset) may destroy what the client has not read yet: updates pushed before it need not be surfaced any more
\* (those that were read are surfaced all the same: Surfaced never counts below zero)
SrvClose == Is("SrvClose") /\ judgeAcks' = FALSE /\ updates' = (IF Ev.hard THEN 0 ELSE updates)
            /\ UNCHANGED <<srvNow, resumed, keyHeld, home, storedHome, sc, lastId, lastSeq, open, frames, ans, toAck, sentIds, resend, wantSalt, stored, alive, bad>>

ConnOpen ==
  /\ Is("ConnOpen")
  \* after the first connection of a scenario the client holds a key: a later connection must not
  \* start a key exchange (plain-text first frame)
  /\ bad' = IF Ev.n > 1 /\ Ev.first = "plain" THEN Note("reconnect-with-key-exchange") ELSE bad
  /\ UNCHANGED <<srvNow, resumed, keyHeld, home, storedHome, sc, lastId, lastSeq, open, frames, ans, toAck, sentIds, resend, wantSalt, stored, alive, judgeAcks, updates>>

Stored == Is("Stored") /\ stored' = Ev.salt /\ storedHome' = Ev.home
          /\ UNCHANGED <<srvNow, resumed, keyHeld, home, sc, lastId, lastSeq, open, frames, ans, toAck, sentIds, resend, wantSalt, alive, judgeAcks, updates, bad>>

(* ---- results reaching callers ---- *)
SameVal(a, b) == a.kind = b.kind /\ a.v = b.v /\ a.code = b.code /\ a.msg = b.msg /\ a.param = b.param
Return ==
  /\ Is("Return")
  /\ LET t == Ev IN
     IF ~Has(open, t.c)
       THEN /\ bad' = Note("return-without-call") /\ UNCHANGED <<open, frames>>
       ELSE LET mine == {id \in FramesOf(open[t.c].tag) : frames[id].st = "answered"}
                good == {id \in mine : SameVal(ans[id], t.val)}
                others == {id \in DOMAIN ans : id \notin FramesOf(open[t.c].tag) /\ SameVal(ans[id], t.val)}
            IN /\ open' = [c \in DOMAIN open \ {t.c} |-> open[c]]
               /\ IF good # {}
                    THEN /\ frames' = [frames EXCEPT ![CHOOSE id \in good : TRUE].st = "returned"] /\ UNCHANGED bad
                    ELSE /\ UNCHANGED frames
                         /\ bad' = Note(IF t.val.kind = "goerror" THEN "call-failed"
                                        ELSE IF others # {} THEN "result-of-another-request"
                                        ELSE IF mine # {} /\ t.val.kind = "other" THEN "result-not-typed"
                                        ELSE IF mine # {} THEN "result-differs-from-answer"
                                        ELSE IF \E id \in FramesOf(open[t.c].tag) : frames[id].st = "returned" THEN "result-delivered-twice"
                                        ELSE "result-without-answer")
  /\ UNCHANGED <<srvNow, resumed, keyHeld, home, storedHome, sc, lastId, lastSeq, ans, toAck, sentIds, resend, wantSalt, stored, alive, judgeAcks, updates>>

\* the client holds a key: after a key exchange, or from the start when the store held a session
GotKey == /\ Is("Connected") /\ keyHeld' = TRUE
          /\ UNCHANGED <<sc, lastId, lastSeq, open, frames, ans, toAck, sentIds, resend, wantSalt, stored, alive, judgeAcks, updates, home, storedHome, srvNow, resumed, bad>>
\* the store holds a session from the start: the key, and the server's current salt
Prefilled == /\ Is("Prefilled") /\ keyHeld' = TRUE /\ stored' = Ev.salt /\ srvNow' = Ev.salt
             /\ UNCHANGED <<sc, lastId, lastSeq, open, frames, ans, toAck, sentIds, resend, wantSalt, alive, judgeAcks, updates, home, storedHome, resumed, bad>>
\* end of a key exchange on the server's side: the salt both sides derived
HSDone == /\ Is("HSDone") /\ srvNow' = Ev.salt
          /\ UNCHANGED <<sc, lastId, lastSeq, open, frames, ans, toAck, sentIds, resend, wantSalt, stored, alive, judgeAcks, updates, keyHeld, home, storedHome, resumed, bad>>
\* a plain-text (key exchange) message reached a server although the client holds a key
PlainSeen == /\ Is("Plain")
             /\ bad' = IF keyHeld THEN Note("key-exchange-with-key-held") ELSE bad
             /\ UNCHANGED <<sc, lastId, lastSeq, open, frames, ans, toAck, sentIds, resend, wantSalt, stored, alive, judgeAcks, updates, keyHeld, home, storedHome, srvNow, resumed>>
\* the application stopped and started again on the same session store: a new session (seq_no starts again),
\* the same key, no call in progress
Restarted == /\ Is("Restarted") /\ lastSeq' = 0 /\ home' = storedHome /\ resumed' = TRUE
             /\ toAck' = {}          \* what was not acknowledged when the application stopped stays so
             /\ open' = <<>> /\ UNCHANGED bad  \* a call still open was reported when it timed out; it ends with the application
             /\ UNCHANGED <<sc, lastId, frames, ans, sentIds, resend, wantSalt, stored, alive, judgeAcks, updates, keyHeld, storedHome, srvNow>>

\* an update object reached the registered handler (or, without one, the warning channel)
Surfaced == /\ Is("Update") /\ updates' = IF updates > 0 THEN updates - 1 ELSE 0
            /\ UNCHANGED <<srvNow, resumed, keyHeld, home, storedHome, sc, lastId, lastSeq, open, frames, ans, toAck, sentIds, resend, wantSalt, stored, alive, judgeAcks, bad>>

Timeout == /\ Is("Timeout")
           /\ bad' = Note(IF Ev.waiting = "CreateConnection" THEN "connect-never-returned" ELSE "call-never-returned")
           /\ UNCHANGED <<srvNow, resumed, keyHeld, home, storedHome, sc, lastId, lastSeq, open, frames, ans, toAck, sentIds, resend, wantSalt, stored, alive, judgeAcks, updates>>
Dead == /\ Is("Dead") /\ alive' = FALSE /\ bad' = Note("process-died")
        /\ UNCHANGED <<srvNow, resumed, keyHeld, home, storedHome, sc, lastId, lastSeq, open, frames, ans, toAck, sentIds, resend, wantSalt, stored, judgeAcks, updates>>
ConnectError == /\ Is("ConnectError") /\ bad' = Note("connect-failed")
                /\ UNCHANGED <<srvNow, resumed, keyHeld, home, storedHome, sc, lastId, lastSeq, open, frames, ans, toAck, sentIds, resend, wantSalt, stored, alive, judgeAcks, updates>>

\* quiescence: every call returned (else a Timeout was logged), everything acknowledged, every
\* rejected request sent again, the adopted salt persisted
End ==
  /\ Is("End")
  /\ bad' = IF ~Ev.ok THEN bad ELSE Notes(SelectKinds(<<
        <<judgeAcks /\ toAck # {}, "content-message-never-acknowledged">>,
        <<resend # {}, "rejected-request-not-resent">>,
        <<wantSalt # 0 /\ stored # wantSalt, "salt-not-persisted">>,
        <<Ev.surface /\ updates > 0, "update-not-surfaced">> >>))
  /\ UNCHANGED <<srvNow, resumed, keyHeld, home, storedHome, sc, lastId, lastSeq, open, frames, ans, toAck, sentIds, resend, wantSalt, stored, alive, judgeAcks, updates>>

Skip == /\ i <= Len(Trace) /\ Ev.e \in {"Start", "Gate", "ConnClose", "Warn", "Note", "FinalStore"}
        /\ i' = i + 1
        /\ UNCHANGED <<srvNow, resumed, keyHeld, home, storedHome, sc, lastId, lastSeq, open, frames, ans, toAck, sentIds, resend, wantSalt, stored, alive, judgeAcks, updates, bad>>

Finish == /\ i = Len(Trace) + 1 /\ i' = i + 1
          /\ ndJsonSerialize(IOEnv.VERIF_OUT, bad)
          /\ UNCHANGED <<srvNow, resumed, keyHeld, home, storedHome, sc, lastId, lastSeq, open, frames, ans, toAck, sentIds, resend, wantSalt, stored, alive, judgeAcks, updates, bad>>

Next == Reset \/ Call \/ WireReq \/ WireAck \/ WireOther \/ WireUnreadable \/ SrvSend \/ Rotate \/ SrvClose \/ ConnOpen
        \/ GotKey \/ Prefilled \/ HSDone \/ PlainSeen \/ Restarted \/ Stored \/ Return \/ Surfaced \/ Timeout \/ Dead \/ ConnectError \/ End \/ Skip \/ Finish
Spec == Init /\ [][Next]_vars
TraceAccepted == TLCGet("stats").diameter = Len(Trace) + 2
=============================================================================
