SPECIFICATION Spec
CONSTANTS Dev = {"StripNewNonce"}
 SkipCheck = {}
 LZ = {0, 1, 2}
INVARIANTS Agreement NeverPanics LieImpliesAbort StoredIffDone NoEncryptedFrameUnlessDone
PROPERTIES HonestCompletes LieEventuallyAborts
