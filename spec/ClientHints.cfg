SPECIFICATION Spec
CONSTANTS Callers = {c1, c2}
 MaxTick = 2
 MaxRot = 1
 MaxAtt = 2
 FreshKey = FALSE
 MaxJunk = 0
 MaxClose = 0
 MaxBad = 0
 Kinds = {"obj", "vec"}
 Dev = {}
INVARIANTS WireIdsIncrease SeqNoRules OwnResult TypedVector LoopAlive AcceptedNeverResent SaltPersisted NoStallNotify NoStallDeliver AckedAll
PROPERTIES AllDone LoopKeepsReading
VIEW view
