SPECIFICATION Spec
CONSTANTS MaxRot = 2
 MaxStarts = 3
 MaxCalls = 4
 Dev = {"IgnoreStoredAddress"}
INVARIANTS OneKey StoreHoldsKey SaltStored
PROPERTIES ResumeFromStore
