---------------------------- MODULE HandshakeTrace ----------------------------
(* C06 / C07 - evaluator for recorded key exchanges (harness: `verif session` with an `hs`
   block).  Per scenario the log says whether the server lied, what the server derived
   (HSDone), what the client reports (Connected / ConnectError / ConnectPanic), what reached
   the session store (Stored) and which encrypted frames the server saw (Wire).

   Honest server (C06): the client must connect, hold the server's key id and salt, have stored
   them, and its first encrypted request must open under that key with the right salt.
   Lying server (C07): the client must return an error - no connection, nothing stored, no
   encrypted frame, no panic. *)
EXTENDS Integers, Sequences, FiniteSets, TLC, Json, IOUtils

Trace == ndJsonDeserialize(IOEnv.VERIF_TRACE)
VARIABLES i, sc, lying, srv, connected, stored, wires, failed, bad
vars == <<i, sc, lying, srv, connected, stored, wires, failed, bad>>
NoneKS == [keyid |-> "", salt |-> ""]

Ev == Trace[i]
Is(e) == i <= Len(Trace) /\ Ev.e = e /\ i' = i + 1
Note(kind) == Append(bad, [sc |-> sc, pos |-> i, kind |-> kind])

Init == i = 1 /\ sc = 0 /\ lying = FALSE /\ srv = NoneKS /\ connected = FALSE /\ stored = NoneKS /\ wires = 0 /\ failed = FALSE /\ bad = <<>>
Reset == /\ Is("Reset") /\ sc' = Ev.sc /\ lying' = Ev.lying
         /\ srv' = NoneKS /\ connected' = FALSE /\ stored' = NoneKS /\ wires' = 0 /\ failed' = FALSE /\ UNCHANGED bad
HSDone == Is("HSDone") /\ srv' = [keyid |-> Ev.keyid, salt |-> Ev.salt] /\ UNCHANGED <<sc, lying, connected, stored, wires, failed, bad>>
Stored == /\ Is("Stored") /\ stored' = [keyid |-> Ev.keyid, salt |-> Ev.salt]
          /\ bad' = IF lying THEN Note("session-stored-after-lie") ELSE bad
          /\ UNCHANGED <<sc, lying, srv, connected, wires, failed>>
Connected ==
  /\ Is("Connected") /\ connected' = TRUE
  /\ bad' = IF lying THEN Note("lie-accepted")
            ELSE IF Ev.keyid # srv.keyid \/ Ev.keylen # 256 THEN Note("auth-key-disagreement")
            ELSE IF Ev.salt # srv.salt THEN Note("salt-disagreement")
            ELSE IF stored # srv THEN Note("session-not-stored")
            ELSE bad
  /\ UNCHANGED <<sc, lying, srv, stored, wires, failed>>
ConnectError == /\ Is("ConnectError") /\ failed' = TRUE
                /\ bad' = IF lying THEN bad ELSE Note("honest-exchange-failed")
                /\ UNCHANGED <<sc, lying, srv, connected, stored, wires>>
ConnectPanic == Is("ConnectPanic") /\ bad' = Note("panic-instead-of-error") /\ UNCHANGED <<sc, lying, srv, connected, stored, wires, failed>>
Wire ==
  /\ Is("Wire") /\ wires' = wires + 1
  /\ bad' = IF lying THEN Note("encrypted-frame-after-lie")
            ELSE IF wires = 0 /\ ~(Ev.keyok /\ Ev.msgkeyok) THEN Note("first-request-unreadable")
            ELSE IF wires = 0 /\ ~Ev.saltok THEN Note("first-request-wrong-salt")
            ELSE bad
  /\ UNCHANGED <<sc, lying, srv, connected, stored, failed>>
Timeout == Is("Timeout") /\ bad' = Note(IF Ev.waiting = "CreateConnection" THEN "exchange-never-returned" ELSE "probe-never-returned")
           /\ UNCHANGED <<sc, lying, srv, connected, stored, wires, failed>>
Dead == Is("Dead") /\ bad' = Note("process-died") /\ UNCHANGED <<sc, lying, srv, connected, stored, wires, failed>>
End == /\ Is("End")
       /\ bad' = IF lying /\ ~failed /\ ~connected THEN Note("no-error-reported")
                 ELSE IF ~lying /\ ~connected /\ ~failed THEN Note("honest-exchange-failed")
                 ELSE IF ~lying /\ connected /\ wires = 0 THEN Note("no-encrypted-request-seen") ELSE bad
       /\ UNCHANGED <<sc, lying, srv, connected, stored, wires, failed>>
\* the same client object is connected again, to a server that is conformant by now (Handshake!Again): from here on the
\* rules of an honest exchange apply - a full exchange (HSDone), agreement, a stored session, a readable first request;
\* what the abandoned attempt left in the store stays in the picture.  The server may also lie again, in another way
\* (Ev.lying): then the rules of a lying server apply to the second attempt
Retry == /\ Is("Retry") /\ lying' = Ev.lying /\ srv' = NoneKS /\ connected' = FALSE /\ failed' = FALSE /\ wires' = 0
         /\ UNCHANGED <<sc, stored, bad>>
Skip == /\ i <= Len(Trace) /\ Ev.e = "Other" /\ i' = i + 1 /\ UNCHANGED <<sc, lying, srv, connected, stored, wires, failed, bad>>
Finish == /\ i = Len(Trace) + 1 /\ i' = i + 1 /\ ndJsonSerialize(IOEnv.VERIF_OUT, bad)
          /\ UNCHANGED <<sc, lying, srv, connected, stored, wires, failed, bad>>
Next == Reset \/ Retry \/ HSDone \/ Stored \/ Connected \/ ConnectError \/ ConnectPanic \/ Wire \/ Timeout \/ Dead \/ End \/ Skip \/ Finish
Spec == Init /\ [][Next]_vars
TraceAccepted == TLCGet("stats").diameter = Len(Trace) + 2
=============================================================================
