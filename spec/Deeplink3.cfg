SPECIFICATION Spec
CONSTANTS MaxSegs = 3
 Dev = {}
INVARIANTS TypeOK Total Agrees
PROPERTY Terminates
