SPECIFICATION Spec
CONSTANTS MaxLen = 3
 Dev = {"WrongInterfacePanics"}
INVARIANTS Total AllocBounded BoundedSteps ValueMeansComplete
