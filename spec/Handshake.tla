---------------------------- MODULE Handshake ----------------------------
(* C06 / C07 - the key exchange (handshake.go makeAuthKey) against a server that is conformant
   or lies exactly once.

   Numbers that travel or are hashed as fixed-width byte strings (nonce, server_nonce,
   new_nonce, new_nonce_hash1, the RSA block, g^ab) are symbols with a leading-zero class
   lz \in {0, 1, 2}; turning one into bytes is an explicit operator:
       Fixed(v)    - the width the protocol prescribes (what a conformant peer uses)
       Stripped(v) - big-endian without leading zero bytes, copied left-aligned (as coded)
   Two byte strings are equal iff they come from the same symbol and either the same
   conversion or a symbol without leading zeros.  Hashes / keys derived from byte strings are
   free constructors, so both sides agree exactly when they fed equal bytes.

   Dev (as originally coded): StripNewNonce, StripServerNonce, StripNonceHash, StripGAB,
   RsaLeftAligned, PanicOnBadAnswerHash; and SkipCheck - the set of (step, field) checks the
   client omits (each one alone must let a lie through).

   A client object whose exchange was abandoned may be connected again (Again, up to MaxAttempts): by then the
   application may be talking to a conformant server, and the second attempt is a key exchange like any other.  As coded
   the object already holds the computed key when dh_gen_ok is still to come (memKey: SetAuthKey before the
   confirmation); that key was never confirmed and must not make a later attempt skip the exchange
   (Dev SkipExchangeWhenKeyInMemory: `connected` is decided by "a key is in memory" - seeded change C06_13). *)
EXTENDS Integers, Sequences, FiniteSets, TLC

CONSTANTS Dev, SkipCheck, LZ, MaxAttempts

\* omitted checks used by the sensitivity configurations
SkipHash == {<<"dhGen", "new_nonce_hash">>}
SkipInner == {<<"dhInner", "server_nonce">>}
SkipFingerprint == {<<"resPQ", "fingerprints">>}

Fields == {"nonce", "server_nonce", "new_nonce", "hash1", "rsa", "gab"}
Bytes(v, how, lzOf) == IF lzOf[v] = 0 THEN <<v, "fixed">> ELSE <<v, how>>
Conv(v, dev, lzOf) == Bytes(v, IF dev \in Dev THEN "stripped" ELSE "fixed", lzOf)

Steps == {"resPQ", "dhParams", "dhInner", "dhGen"}
Lies == {[step |-> "none", field |-> "none"]}
   \cup {[step |-> "resPQ", field |-> f] : f \in {"nonce", "fingerprints", "kind"}}
   \cup {[step |-> "dhParams", field |-> f] : f \in {"nonce", "server_nonce", "answer_hash", "kind"}}
   \cup {[step |-> "dhInner", field |-> f] : f \in {"nonce", "server_nonce", "kind"}}
   \cup {[step |-> "dhGen", field |-> f] : f \in {"nonce", "server_nonce", "new_nonce_hash", "kind"}}

VARIABLES lz, lie, pc, stored, encSent, cKey, cSalt, sKey, sSalt,
          memKey,    \* the client object holds a computed key (confirmed or not)
          fpSeen,    \* an offered fingerprint has matched the configured key in some attempt on this client object
          attempt    \* number of the connection attempt on this client object
vars == <<lz, lie, pc, stored, encSent, cKey, cSalt, sKey, sSalt, memKey, fpSeen, attempt>>

Init == /\ lz \in [Fields -> LZ] /\ lie \in Lies
        /\ pc = "start" /\ stored = FALSE /\ encSent = FALSE
        /\ cKey = "none" /\ cSalt = "none" /\ sKey = "none" /\ sSalt = "none"
        /\ memKey = FALSE /\ fpSeen = FALSE /\ attempt = 1

\* the server lies at most once per attempt (`lie` is the lie of the current attempt)
Lying(step, field) == lie.step = step /\ lie.field = field
\* FingerprintCheckedOnce (seeded change C07_16): once an offered fingerprint has matched, later exchanges on the same client
\* object no longer look at the fingerprints
Checks(step, field) == /\ <<step, field>> \notin SkipCheck
                       /\ ~("FingerprintCheckedOnce" \in Dev /\ step = "resPQ" /\ field = "fingerprints" /\ fpSeen)
Abort == pc' = "aborted" /\ UNCHANGED <<lz, lie, stored, encSent, cKey, cSalt, sKey, sSalt, memKey, fpSeen, attempt>>
Goto(p) == pc' = p /\ UNCHANGED <<lz, lie, stored, encSent, cKey, cSalt, sKey, sSalt, memKey, fpSeen, attempt>>
\* g^ab computed: as coded the key goes into the client object at once (SetAuthKey), before the server confirmed it
GotoKeyed(p) == pc' = p /\ memKey' = TRUE /\ UNCHANGED <<lz, lie, stored, encSent, cKey, cSalt, sKey, sSalt, fpSeen, attempt>>

\* req_pq -> resPQ: nonce echoed, fingerprint offered
RecvResPQ ==
  /\ pc = "start"
  /\ IF \/ Lying("resPQ", "kind")
        \/ Lying("resPQ", "nonce") /\ Checks("resPQ", "nonce")
        \/ Lying("resPQ", "fingerprints") /\ Checks("resPQ", "fingerprints")
       THEN Abort
       ELSE pc' = "sentReqDH" /\ fpSeen' = TRUE /\ UNCHANGED <<lz, lie, stored, encSent, cKey, cSalt, sKey, sSalt, memKey, attempt>>

\* req_DH_params carries RSA(p_q_inner_data); the server must be able to read it
ServerReadsRSA == Conv("rsa", "RsaLeftAligned", lz) = Bytes("rsa", "fixed", lz)
RecvDHParams ==
  /\ pc = "sentReqDH"
  /\ IF ~ServerReadsRSA THEN Abort          \* the server drops the exchange: the client fails
     ELSE IF \/ Lying("dhParams", "kind")
             \/ Lying("dhParams", "nonce") /\ Checks("dhParams", "nonce")
             \/ Lying("dhParams", "server_nonce") /\ Checks("dhParams", "server_nonce")
       THEN Abort
     ELSE IF Lying("dhParams", "answer_hash") /\ Checks("dhParams", "answer_hash")
       THEN IF "PanicOnBadAnswerHash" \in Dev THEN Goto("panicked") ELSE Abort
     ELSE IF \/ Lying("dhInner", "kind")
             \/ Lying("dhInner", "nonce") /\ Checks("dhInner", "nonce")
             \/ Lying("dhInner", "server_nonce") /\ Checks("dhInner", "server_nonce")
       THEN Abort
     ELSE GotoKeyed("sentClientDH")

\* what each side derives
ClientKey  == <<"key", Conv("gab", "StripGAB", lz)>>
ServerKey  == <<"key", Bytes("gab", "fixed", lz)>>
ClientSalt == <<"salt", Conv("new_nonce", "StripNewNonce", lz), Conv("server_nonce", "StripServerNonce", lz)>>
ServerSalt == <<"salt", Bytes("new_nonce", "fixed", lz), Bytes("server_nonce", "fixed", lz)>>
ClientHash == <<"h1", Conv("new_nonce", "StripNewNonce", lz), ClientKey>>
ServerHash == <<"h1", Bytes("new_nonce", "fixed", lz), ServerKey>>
\* the received hash as the client turns it into bytes for the comparison
HashOK == IF "StripNonceHash" \in Dev /\ lz["hash1"] > 0 THEN FALSE ELSE ClientHash = ServerHash

RecvDHGen ==
  /\ pc = "sentClientDH"
  /\ sKey' = ServerKey /\ sSalt' = ServerSalt            \* the server has computed its side
  /\ IF \/ Lying("dhGen", "kind")
        \/ Lying("dhGen", "nonce") /\ Checks("dhGen", "nonce")
        \/ Lying("dhGen", "server_nonce") /\ Checks("dhGen", "server_nonce")
        \/ Lying("dhGen", "new_nonce_hash") /\ Checks("dhGen", "new_nonce_hash")
        \/ ~Lying("dhGen", "new_nonce_hash") /\ ~HashOK
       THEN /\ pc' = "aborted" /\ UNCHANGED <<stored, cKey, cSalt>>
       ELSE /\ pc' = "done" /\ stored' = TRUE /\ cKey' = ClientKey /\ cSalt' = ClientSalt
  /\ UNCHANGED <<lz, lie, encSent, memKey, fpSeen, attempt>>

FirstRequest == pc = "done" /\ ~encSent /\ encSent' = TRUE /\ UNCHANGED <<lz, lie, pc, stored, cKey, cSalt, sKey, sSalt, memKey, fpSeen, attempt>>

\* the application connects the same client object again; the server it reaches now knows nothing of the abandoned
\* exchange (the leading-zero classes of the new values are kept: they are independent of the attempt)
Again ==
  /\ pc = "aborted" /\ attempt < MaxAttempts
  /\ attempt' = attempt + 1 /\ sKey' = "none" /\ sSalt' = "none"
  /\ lie' \in Lies                  \* the server of the second attempt is conformant, or lies in its own way
  /\ pc' = IF "SkipExchangeWhenKeyInMemory" \in Dev /\ memKey THEN "unkeyed" ELSE "start"
  /\ UNCHANGED <<lz, stored, encSent, cKey, cSalt, memKey, fpSeen>>

Stutter == (pc = "aborted" /\ attempt >= MaxAttempts) \/ pc \in {"panicked", "unkeyed"} \/ (pc = "done" /\ encSent)
Next == RecvResPQ \/ RecvDHParams \/ RecvDHGen \/ FirstRequest \/ Again \/ (Stutter /\ UNCHANGED vars)
Spec == Init /\ [][Next]_vars /\ WF_vars(Next)

(* ---- properties ---- *)
Honest == lie.step = "none"
\* C06: with a conformant server the exchange completes and both sides hold the same key and salt,
\* whatever the numeric values (leading zero bytes) drawn
Agreement == pc = "done" /\ Honest => cKey = sKey /\ cSalt = sSalt
HonestCompletes == <>(Honest => pc = "done" /\ stored)
NeverPanics == pc # "panicked"
\* connecting never "succeeds" without an exchange: a client that reports success holds a key the server confirmed
NeverUnkeyed == pc # "unkeyed"
\* C07: any lie ends in an abort: nothing stored, no encrypted request
LieImpliesAbort == ~Honest => pc \notin {"done"} /\ ~stored /\ ~encSent
LieEventuallyAborts == <>(~Honest => pc = "aborted")
StoredIffDone == stored <=> pc = "done"
NoEncryptedFrameUnlessDone == encSent => pc = "done"
=============================================================================
