---------------------------- MODULE IGE ----------------------------
(* C05 - AES-256-IGE as a definition over an abstract block cipher, and the padding wrappers.

   The module is parametric in the block operations (instantiated twice: IGEToy - a finite
   algebra TLC checks exhaustively; IGETerm - symbolic terms the Go harness interprets with
   the real primitives, see DESIGN 2.3).

     c_i = E(k, p_i xor c_{i-1}) xor p_{i-1},   c_0 = iv[0:16], p_0 = iv[16:32]
     p_i = D(k, c_i xor p_{i-1}) xor c_{i-1}                                         *)
EXTENDS Integers, Sequences

CONSTANTS E(_, _), D(_, _), X(_, _)

RECURSIVE EncFrom(_, _, _, _, _)
\* ciphertext blocks for plaintext blocks P[i..], given the previous cipher / plain block
EncFrom(k, cprev, pprev, P, i) ==
  IF i > Len(P) THEN <<>>
  ELSE LET c == X(E(k, X(P[i], cprev)), pprev) IN <<c>> \o EncFrom(k, c, P[i], P, i + 1)
IgeEnc(k, c0, p0, P) == EncFrom(k, c0, p0, P, 1)

RECURSIVE DecFrom(_, _, _, _, _)
DecFrom(k, cprev, pprev, C, i) ==
  IF i > Len(C) THEN <<>>
  ELSE LET p == X(D(k, X(C[i], pprev)), cprev) IN <<p>> \o DecFrom(k, C[i], p, C, i + 1)
IgeDec(k, c0, p0, C) == DecFrom(k, c0, p0, C, 1)

\* only a positive whole number of blocks is accepted
ValidLen(len) == len > 0 /\ len % 16 = 0

\* message-level padding: zero bytes up to the next multiple of 16 (none when aligned)
Pad16(len) == (16 - (len % 16)) % 16
\* key-exchange wrapper: SHA1(payload) ++ payload ++ pad, 0 <= pad <= 15, total divisible by 16
WrapPad(len) == (16 - ((20 + len) % 16)) % 16
=============================================================================
