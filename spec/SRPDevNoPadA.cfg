SPECIFICATION Spec
CONSTANT Dev = {"NoPadA"}
INVARIANTS RightAccepted WrongRejected EmptyIsNoPassword InvalidBRefused
