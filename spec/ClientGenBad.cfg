SPECIFICATION GSpec
CONSTANTS Callers = {c1, c2, c3}
 MaxTick = 8
 MaxRot = 0
 MaxAtt = 2
 FreshKey = FALSE
 MaxJunk = 0
 MaxClose = 0
 MaxBad = 2
 Kinds = {"obj"}
 Dev = {}
CHECK_DEADLOCK FALSE
