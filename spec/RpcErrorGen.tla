---------------------------- MODULE RpcErrorGen ----------------------------
EXTENDS RpcErrorDef, SequencesExt, Json, IOUtils
ASSUME ndJsonSerialize(IOEnv.VERIF_OUT, SetToSeq({CaseOf(t) : t \in Texts}))
=============================================================================
