SPECIFICATION Spec
CONSTANTS MaxBlocks = 2
 Dev = {"SwapXY"}
INVARIANTS InputUntouched MatchesDefinition DefinitionInverts
