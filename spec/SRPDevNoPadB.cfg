SPECIFICATION Spec
CONSTANT Dev = {"NoPadB"}
INVARIANTS RightAccepted WrongRejected EmptyIsNoPassword InvalidBRefused
