SPECIFICATION Spec
CONSTANTS Ids = {2, 3}
 Addrs = {"dc2", "dc3"}
 MaxOpts = 3
 Dev = {"InitNotFirst"}
INVARIANTS BadFilesContactNothing ResumeNoExchange InitFirst MigrateTarget NeverCdn
CHECK_DEADLOCK FALSE
