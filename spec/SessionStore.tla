---------------------------- MODULE SessionStore ----------------------------
(* C12 - the file session store: one path, several loader objects (each with its private
   cache keyed on the file's modification time, as internal/session/file.go has), stores,
   loads, clock ticks (modification times are only as fine as the clock) and a crash in the
   middle of a write that leaves a strict prefix of the file.

   Observable property: a load returns the session stored last ("last store wins"),
   `notfound` when nothing was ever written and `error` when the file is torn - never a
   different session.

   Deviations (Dev):
     NoInvalidateOnStore - Store leaves the storing loader's cache alone (as originally coded):
                           a store and a load by the same loader within one clock tick return
                           the previous session.
     CoarseForeign       - environment: a write by *another* loader/process may carry the
                           same modification time as the cached one (coarse clock).  With the
                           mtime-keyed cache this yields a stale load; without it (every
                           foreign write is stamped later than anything cached) the design
                           is correct, which is what the verdict configuration checks. *)
EXTENDS Integers, Sequences, FiniteSets, TLC

CONSTANTS Loaders, Sessions, MaxClock, Dev

VARIABLES file,      \* "absent" | "torn" | s \in Sessions
          mtime,     \* clock value stamped on the file by the last write
          clock,
          writer,    \* loader that wrote last ("crash" for a torn write, "none" initially)
          cache,     \* per loader: "none" | s
          cachedAt,  \* per loader: mtime the cache entry was read at
          last       \* history: the last load [l, res, want]  (hidden by VIEW)
vars == <<file, mtime, clock, writer, cache, cachedAt, last>>
view == <<file, mtime, clock, writer, cache, cachedAt>>

Init == /\ file = "absent" /\ mtime = 0 /\ clock = 1 /\ writer = "none"
        /\ cache = [l \in Loaders |-> "none"] /\ cachedAt = [l \in Loaders |-> 0]
        /\ last = [l |-> "none", res |-> "none", want |-> "none"]

Tick == clock < MaxClock /\ clock' = clock + 1 /\ UNCHANGED <<file, mtime, writer, cache, cachedAt, last>>

\* the time a write by w is stamped with: later than anything another loader has cached (a
\* kernel with fine or multigrain timestamps guarantees it: the cached read stat()ed the file)
\* unless the environment is coarse
ForeignCacheNow(w) == \E l \in Loaders \ {w} : cache[l] # "none" /\ cachedAt[l] = clock
Stamp(w) == IF "CoarseForeign" \in Dev \/ ~ForeignCacheNow(w) THEN clock ELSE clock + 1

Store(l, s) ==
  /\ Stamp(l) <= MaxClock
  /\ file' = s /\ mtime' = Stamp(l) /\ clock' = Stamp(l) /\ writer' = l
  /\ cache' = IF "NoInvalidateOnStore" \in Dev THEN cache ELSE [cache EXCEPT ![l] = "none"]
  /\ UNCHANGED <<cachedAt, last>>

\* a writer died after writing a strict prefix of the file (any prefix: all look alike here)
Crash ==
  /\ Stamp("crash") <= MaxClock
  /\ file' = "torn" /\ mtime' = Stamp("crash") /\ clock' = Stamp("crash") /\ writer' = "crash"
  /\ UNCHANGED <<cache, cachedAt, last>>

Want == IF file = "absent" THEN "notfound" ELSE IF file = "torn" THEN "error" ELSE file
CacheHit(l) == file # "absent" /\ cache[l] # "none" /\ cachedAt[l] = mtime
Result(l) == IF CacheHit(l) THEN cache[l] ELSE Want

Load(l) ==
  /\ last' = [l |-> l, res |-> Result(l), want |-> Want]
  /\ IF ~CacheHit(l) /\ file \in Sessions
       THEN cache' = [cache EXCEPT ![l] = file] /\ cachedAt' = [cachedAt EXCEPT ![l] = mtime]
       ELSE UNCHANGED <<cache, cachedAt>>
  /\ UNCHANGED <<file, mtime, clock, writer>>

Next == Tick \/ Crash \/ \E l \in Loaders : Load(l) \/ \E s \in Sessions : Store(l, s)
Spec == Init /\ [][Next]_vars

(* ---- properties ---- *)
LoadReturnsLastStore == last.res = last.want
\* the reason it holds: a cache entry that would be used is current
CacheCoherent == \A l \in Loaders : CacheHit(l) => cache[l] = file
=============================================================================
