SPECIFICATION Spec
CONSTANTS Callers = {c1, c2}
 MaxTick = 3
 MaxRot = 2
 MaxAtt = 3
 FreshKey = FALSE
 MaxJunk = 0
 MaxClose = 0
 MaxBad = 0
 Kinds = {"obj"}
 Dev = {"NotifyAllOnBadSalt", "StaleEntryAfterNotify"}
INVARIANTS WireIdsIncrease SeqNoRules OwnResult AcceptedNeverResent SaltPersisted NoStallNotify NoStallDeliver
VIEW view
