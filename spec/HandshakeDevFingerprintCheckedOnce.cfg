SPECIFICATION Spec
CONSTANTS Dev = {"FingerprintCheckedOnce"}
 SkipCheck = {}
 LZ = {0, 1, 2}
 MaxAttempts = 2
INVARIANTS Agreement NeverPanics NeverUnkeyed LieImpliesAbort StoredIffDone NoEncryptedFrameUnlessDone
PROPERTIES HonestCompletes LieEventuallyAborts
