---------------------------- MODULE ClientGen ----------------------------
(* Schedule generator: random behaviours of Client.tla (tlc -simulate); when every caller has
   finished, the controllable steps recorded in `hist` (caller start, release at the send gate,
   server answers with their grouping, salt rotations) are printed as JSON for the harness. *)
EXTENDS Client, Json
VARIABLE emitted
AllFinished == \A c \in Callers : pc[c] = "done" \/ att[c] > MaxAtt
GInit == Init /\ emitted = FALSE
\* also emit when the as-coded model is stuck (those are the most interesting schedules)
Emit == /\ (AllFinished \/ ~ENABLED Next) /\ ~emitted /\ emitted' = TRUE
        /\ PrintT(<<"SCHEDULE", ToJson(hist)>>)
        /\ UNCHANGED vars
GNext == \/ ~AllFinished /\ Next /\ UNCHANGED emitted
         \/ Emit
GSpec == GInit /\ [][GNext]_<<vars, emitted>>
=============================================================================
