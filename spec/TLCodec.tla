---------------------------- MODULE TLCodec ----------------------------
(* C01 / C02 - the TL wire format as a function from (layout, value) to a byte image.

   A layout is a sequence of field descriptors
       [kind, vec, barevec, bit]      kind \in int long double string bytes bool true flags
                                                object enum int128 int256; bit = -1: required
   A value is a sequence of field values, one per non-flags field, in layout order:
       [k |-> "absent"] | [k |-> "int", c |-> class] | "long" | "double" | [k |-> "str", len, tag]
       | [k |-> "bytes", len, tag] | [k |-> "bool", b] | [k |-> "true", b]
       | [k |-> "obj", id, bare, layout, f] | [k |-> "vec", e |-> <<values>>] | [k |-> "big", w, lz, tag]
   The image is a sequence of chunks the harness renders by plain concatenation:
       [t |-> "w", v |-> <<lo16, hi16>>]      32-bit word, little-endian
       [t |-> "q", v |-> <<h0, h1, h2, h3>>]  64-bit, little-endian 16-bit groups
       [t |-> "b", v |-> <<bytes>>]           literal bytes (string headers)
       [t |-> "p", len, tag]                  len payload bytes named tag
       [t |-> "z", n]                         n zero bytes (alignment)
       [t |-> "be", len, lz, tag]             big-endian number of len bytes with lz leading zero bytes
   Integers stay below 2^31: 32/64-bit values are 16-bit groups. *)
EXTENDS Integers, Sequences, FiniteSets, TLC

VectorId   == <<7349, 50197>>    \* 0x1cb5c415  <<hi, lo>>
BoolTrueId == <<39282, 30133>>   \* 0x997275b5
BoolFalseId == <<48249, 38711>>  \* 0xbc799737

W(id) == [t |-> "w", v |-> <<id[2], id[1]>>]          \* <<hi, lo>> as a little-endian word
WInt(n) == [t |-> "w", v |-> <<n % 65536, n \div 65536>>]   \* 0 <= n < 2^31

\* value classes of the scalar kinds, as little-endian 16-bit groups
Int32Class(c) ==
  CASE c = "zero" -> <<0, 0>> [] c = "one" -> <<1, 0>> [] c = "minus1" -> <<65535, 65535>>
    [] c = "max" -> <<65535, 32767>> [] c = "min" -> <<0, 32768>> [] c = "pat" -> <<772, 258>>      \* 0x01020304
Int64Class(c) ==
  CASE c = "zero" -> <<0, 0, 0, 0>> [] c = "one" -> <<1, 0, 0, 0>> [] c = "minus1" -> <<65535, 65535, 65535, 65535>>
    [] c = "max" -> <<65535, 65535, 65535, 32767>> [] c = "min" -> <<0, 0, 0, 32768>>
    [] c = "pat" -> <<1800, 1286, 772, 258>>                                                     \* 0x0102030405060708
DoubleClass(c) ==   \* IEEE-754 binary64 bit patterns
  CASE c = "zero" -> <<0, 0, 0, 0>> [] c = "one" -> <<0, 0, 0, 16368>>          \* 0x3FF0...
    [] c = "minus1" -> <<0, 0, 0, 49136>>                                        \* -1.0 = 0xBFF0...
    [] c = "max" -> <<65535, 65535, 65535, 32751>>                               \* 0x7FEFFFFFFFFFFFFF
    [] c = "min" -> <<1, 0, 0, 0>>                                               \* smallest subnormal
    [] c = "pat" -> <<11544, 21572, 8699, 16393>>                                \* pi = 0x400921FB54442D18

MaxLen == 16777216   \* 2^24: a string this long (or longer) cannot be written
StrOK(len) == len < MaxLen
StrChunks(len, tag) ==
  IF len <= 253
    THEN <<[t |-> "b", v |-> <<len>>], [t |-> "p", len |-> len, tag |-> tag], [t |-> "z", n |-> (4 - ((1 + len) % 4)) % 4]>>
    ELSE <<[t |-> "b", v |-> <<254, len % 256, (len \div 256) % 256, (len \div 65536) % 256>>],
           [t |-> "p", len |-> len, tag |-> tag], [t |-> "z", n |-> (4 - (len % 4)) % 4]>>

\* concatenation of a sequence of sequences, by halves (depth log n: a vector of a thousand items is one message too)
Flat(ss) == LET RECURSIVE F(_, _)
                F(lo, hi) == IF lo > hi THEN <<>> ELSE IF lo = hi THEN ss[lo]
                             ELSE LET mid == (lo + hi) \div 2 IN F(lo, mid) \o F(mid + 1, hi)
            IN F(1, Len(ss))

Present(fd, fv) == fv.k # "absent" /\ (fd.kind = "true" => fv.b)
DataFields(L) == SelectSeq(L, LAMBDA fd : fd.kind # "flags")
\* value index of layout position j (the flags word carries no value)
ValIdx(L, j) == Cardinality({m \in 1..j : L[m].kind # "flags"})
FlagBits(L, V) == {L[j].bit : j \in {m \in 1..Len(L) : L[m].kind # "flags" /\ L[m].bit >= 0 /\ Present(L[m], V[ValIdx(L, m)])}}
Pow2(n) == 2 ^ n
FlagWord(S) == <<  \* <<lo16, hi16>>
  LET RECURSIVE Sum(_) Sum(T) == IF T = {} THEN 0 ELSE LET b == CHOOSE x \in T : TRUE IN Pow2(b) + Sum(T \ {b}) IN Sum({b \in S : b < 16}),
  LET RECURSIVE Sum(_) Sum(T) == IF T = {} THEN 0 ELSE LET b == CHOOSE x \in T : TRUE IN Pow2(b - 16) + Sum(T \ {b}) IN Sum({b \in S : b >= 16}) >>

RECURSIVE EncVal(_, _), EncObj(_)
\* one field value (fd gives vector-ness; an element of a vector is encoded with EncVal of the element descriptor)
EncVal(fd, fv) ==
  CASE fv.k = "absent" -> <<>>
    \* class "pos": a value that names the field's position n: 0x0007_0000 + 1000 + n, resp. 0x000B_0000_0000_0000 + 2000 + n
    [] fv.k = "int" -> <<[t |-> "w", v |-> IF fv.c = "pos" THEN <<1000 + fv.n, 7>> ELSE Int32Class(fv.c)]>>
    [] fv.k = "long" -> <<[t |-> "q", v |-> IF fv.c = "pos" THEN <<2000 + fv.n, 0, 0, 11>> ELSE Int64Class(fv.c)]>>
    [] fv.k = "double" -> <<[t |-> "q", v |-> DoubleClass(fv.c)]>>
    [] fv.k \in {"str", "bytes"} -> StrChunks(fv.len, fv.tag)
    [] fv.k = "bool" -> <<W(IF fv.b THEN BoolTrueId ELSE BoolFalseId)>>
    [] fv.k = "true" -> <<>>
    [] fv.k = "big" -> <<[t |-> "be", len |-> fv.w, lz |-> fv.lz, tag |-> fv.tag]>>
    [] fv.k = "obj" -> EncObj(fv)
    [] fv.k = "vec" -> (IF fd.barevec THEN <<>> ELSE <<W(VectorId)>>) \o <<WInt(Len(fv.e))>>
                       \o Flat([j \in 1..Len(fv.e) |-> EncVal([fd EXCEPT !.vec = FALSE, !.barevec = FALSE], fv.e[j])])
\* a boxed object: constructor id, then the fields in declaration order, the flags word at its position
EncObj(o) ==
  LET L == o.layout V == o.f IN
  (IF o.bare THEN <<>> ELSE <<W(o.id)>>)
  \o Flat([j \in 1..Len(L) |->
             IF L[j].kind = "flags" THEN <<[t |-> "w", v |-> FlagWord(FlagBits(L, V))]>>
             ELSE IF L[j].bit >= 0 /\ ~Present(L[j], V[ValIdx(L, j)]) THEN <<>>
             ELSE EncVal(L[j], V[ValIdx(L, j)])])

\* does the value contain a string that cannot be written?
RECURSIVE TooLarge(_)
TooLarge(fv) ==
  CASE fv.k \in {"str", "bytes"} -> ~StrOK(fv.len)
    [] fv.k = "obj" -> \E j \in 1..Len(fv.f) : TooLarge(fv.f[j])
    [] fv.k = "vec" -> \E j \in 1..Len(fv.e) : TooLarge(fv.e[j])
    [] OTHER -> FALSE

ChunkLen(c) ==
  CASE c.t = "w" -> 4 [] c.t = "q" -> 8 [] c.t = "b" -> Len(c.v) [] c.t = "p" -> c.len [] c.t = "z" -> c.n [] c.t = "be" -> c.len
ImageLen(img) == LET RECURSIVE S(_, _)
                     S(lo, hi) == IF lo > hi THEN 0 ELSE IF lo = hi THEN ChunkLen(img[lo])
                                  ELSE LET mid == (lo + hi) \div 2 IN S(lo, mid) + S(mid + 1, hi)
                 IN S(1, Len(img))

(* ---- what "the same value" means (C01): group rule ---- *)
\* a group of conditional fields on one bit is present iff at least one member is present; the
\* members of a present group are all carried.  A value is normal when every group is uniform.
GroupUniform(L, V) ==
  \A a, b \in {m \in 1..Len(L) : L[m].kind # "flags" /\ L[m].bit >= 0 /\ L[m].kind # "true"} :
     L[a].bit = L[b].bit => (V[ValIdx(L, a)].k = "absent") = (V[ValIdx(L, b)].k = "absent")
=============================================================================
