SPECIFICATION Spec
CONSTANT MaxFields = 3
INVARIANTS WordAligned FlagsMatch RoundTrip GroupRule
