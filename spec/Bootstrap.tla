---------------------------- MODULE Bootstrap ----------------------------
(* The life of an application client from telegram.NewClient on (telegram/common.go): the files it is given, the
   connection (key exchange or resumed session), the first request - invokeWithLayer(layer, initConnection(..., help.getConfig)) -,
   the list of data centres taken from the server's answer, and what PHONE_MIGRATE_X does with that list afterwards.
   It sits at the seams of C12 (a session file that holds a session is resumed, no key exchange), C13 (the request
   wrappers travel as the schema says, around help.getConfig) and C17 ("the address configured for data centre X": for an
   application client the configuration is what the server's config lists).

   The server's config is a sequence of options [id, addr, cdn]; several options may carry the same id (other addresses,
   CDN mirrors).  CDN options are not places to send API requests to.  Reading of "configured for X": any address of a
   non-CDN option with id X; which one is left open.

   One action per step of NewClient / of a migrating call:
     CheckFiles   keys file present? session path writable?          (errors: nothing is contacted)
     Connect      resumed (the file holds a session) or key exchange
     SendInit     the first encrypted request of the connection: the wrapped help.getConfig
     TakeConfig   dc list := defaults overridden by the non-CDN options, in order
     Migrate(x)   a call answered PHONE_MIGRATE_x: repeat it at list[x], or return an error if x is not in the list

   Dev: CdnNotSkipped (CDN options go into the list too), ConfigIgnored (the list stays the built-in one),
        InitNotFirst (an ordinary request precedes the wrapped one), ExchangeOnResume (a new key exchange although the
        file holds a session), ContactBeforeFileCheck (connects before the files are looked at). *)
EXTENDS Integers, Sequences, FiniteSets, TLC

CONSTANTS Ids,        \* data centre ids the server may list
          Addrs,      \* live addresses of ordinary data centres
          MaxOpts, Dev

CdnAddr == "cdn"
Home == "home"
Option == [id : Ids, addr : Addrs \cup {CdnAddr}, cdn : BOOLEAN]
\* a CDN option points at the CDN address, an ordinary one at an ordinary address
WellFormed(o) == (o.cdn <=> o.addr = CdnAddr)
Configs == UNION {[1..n -> {o \in Option : WellFormed(o)}] : n \in 0..MaxOpts}
Files == {[keys |-> k, session |-> s] : k \in {"ok", "missing"}, s \in {"empty", "prefilled", "unwritable"}}

VARIABLES files, cfg, pc, contacted, exchanged, wire, list, at, result, mx
vars == <<files, cfg, pc, contacted, exchanged, wire, list, at, result, mx>>

NoList == [x \in {} |-> ""]
Init == /\ files \in Files /\ cfg \in Configs
        /\ pc = "new" /\ contacted = {} /\ exchanged = FALSE /\ wire = <<>> /\ list = NoList /\ at = Home /\ result = "none" /\ mx = 0

FilesOK == files.keys = "ok" /\ files.session # "unwritable"
CheckFiles ==
  /\ pc = "new"
  /\ IF FilesOK THEN pc' = "checked" /\ UNCHANGED contacted
     ELSE /\ pc' = "failed"
          /\ contacted' = IF "ContactBeforeFileCheck" \in Dev THEN contacted \cup {Home} ELSE contacted
  /\ UNCHANGED <<files, cfg, exchanged, wire, list, at, result, mx>>
Connect ==
  /\ pc = "checked" /\ pc' = "connected" /\ contacted' = contacted \cup {Home}
  /\ exchanged' = (files.session # "prefilled" \/ "ExchangeOnResume" \in Dev)
  /\ UNCHANGED <<files, cfg, wire, list, at, result, mx>>
SendInit ==
  /\ pc = "connected" /\ pc' = "inited"
  /\ wire' = IF "InitNotFirst" \in Dev THEN <<"req", "init">> ELSE <<"init">>
  /\ UNCHANGED <<files, cfg, contacted, exchanged, list, at, result, mx>>
\* defaults overridden by the options in order: the last non-CDN option of an id wins (as coded; any would do)
RECURSIVE Apply(_, _, _)
Apply(l, c, k) == IF k > Len(c) THEN l
                  ELSE IF c[k].cdn /\ "CdnNotSkipped" \notin Dev THEN Apply(l, c, k + 1)
                  ELSE Apply((c[k].id :> c[k].addr) @@ l, c, k + 1)
TakeConfig ==
  /\ pc = "inited" /\ pc' = "ready"
  /\ list' = IF "ConfigIgnored" \in Dev THEN NoList ELSE Apply(NoList, cfg, 1)
  /\ UNCHANGED <<files, cfg, contacted, exchanged, wire, at, result, mx>>
Migrate(x) ==
  /\ pc = "ready" /\ result = "none"
  /\ IF x \in DOMAIN list
       THEN at' = list[x] /\ contacted' = contacted \cup {list[x]} /\ result' = "repeated"
       ELSE result' = "error" /\ UNCHANGED <<at, contacted>>
  /\ pc' = "migrated" /\ mx' = x
  /\ UNCHANGED <<files, cfg, exchanged, wire, list>>
Done == pc \in {"failed", "migrated"} /\ UNCHANGED vars
Next == CheckFiles \/ Connect \/ SendInit \/ TakeConfig \/ Done \/ \E x \in Ids : Migrate(x)
Spec == Init /\ [][Next]_vars

(* ---- properties ---- *)
Configured(x) == {cfg[k].addr : k \in {j \in 1..Len(cfg) : cfg[j].id = x /\ ~cfg[j].cdn}}
\* unusable files: an error, and nothing was contacted
BadFilesContactNothing == ~FilesOK => contacted = {} /\ pc \in {"new", "failed"}
\* C12: a session file that holds a session is resumed
ResumeNoExchange == pc \notin {"new", "checked", "failed"} /\ files.session = "prefilled" => ~exchanged
\* the wrapped help.getConfig is the first request of the connection
InitFirst == wire # <<>> => wire[1] = "init"
\* C17: a migration goes to an address the configuration lists for that data centre (never to a CDN mirror), or is an error
MigrateTarget == pc = "migrated" =>
   IF Configured(mx) # {} THEN result = "repeated" /\ at \in Configured(mx) ELSE result = "error" /\ at = Home
NeverCdn == CdnAddr \notin contacted
=============================================================================
