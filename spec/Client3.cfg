SPECIFICATION Spec
CONSTANTS Callers = {c1, c2, c3}
 MaxTick = 2
 MaxRot = 1
 MaxAtt = 2
 FreshKey = TRUE
 Dev = {}
INVARIANTS WireIdsIncrease SeqNoRules OwnResult AcceptedNeverResent SaltPersisted NoStallNotify NoStallDeliver
VIEW view
