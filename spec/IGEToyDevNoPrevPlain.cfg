SPECIFICATION Spec
CONSTANTS MaxBlocks = 2
 Dev = {"NoPrevPlain"}
INVARIANTS InputUntouched MatchesDefinition DefinitionInverts
