SPECIFICATION Spec
CONSTANT MaxFields = 2
INVARIANTS WordAligned FlagsMatch RoundTrip GroupRule
