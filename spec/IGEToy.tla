---------------------------- MODULE IGEToy ----------------------------
(* C05 - toy instance: 2-bit blocks, every permutation of 0..3 as a "key", every IV pair, every
   message of 1..MaxBlocks blocks.  The machine below is the block loop of
   internal/aes_ige/ige_cipher.go with its registers t, x, y modelled as *locations*
   (x and y are re-pointed at the scratch block and at the caller's input block in every
   round), so that writing through an alias of the caller's buffer would be seen.

   Dev: XorIntoY      - the round's first xor writes through y instead of x (encrypt): y aliases
                        the caller's input from round 2 on;
        NoPrevPlain   - the xor with the previous plaintext block is dropped after round 1;
        SwapXY        - the register update x,y = t,in is exchanged. *)
EXTENDS Integers, Sequences, FiniteSets, TLC

CONSTANTS MaxBlocks, Dev

Blocks == 0..3
Perms == {p \in [Blocks -> Blocks] : \A a, b \in Blocks : a # b => p[a] # p[b]}
Xor2(a, b) == (((a % 2) + (b % 2)) % 2) + 2 * (((a \div 2) + (b \div 2)) % 2)
ToyE(k, b) == k[b]
ToyD(k, b) == CHOOSE a \in Blocks : k[a] = b

Def == INSTANCE IGE WITH E <- ToyE, D <- ToyD, X <- Xor2

VARIABLES key, iv, input, dir, mem, t, x, y, i, step
vars == <<key, iv, input, dir, mem, t, x, y, i, step>>

In(j) == <<"in", j>>
Out(j) == <<"out", j>>
Locs(n) == {<<"v", 0>>, <<"v", 1>>, <<"v", 2>>} \cup {In(j) : j \in 1..n} \cup {Out(j) : j \in 1..n}

Init ==
  /\ key \in Perms /\ iv \in Blocks \X Blocks /\ dir \in {"enc", "dec"}
  /\ input \in UNION {[1..n -> Blocks] : n \in 1..MaxBlocks}
  /\ mem = [l \in Locs(Len(input)) |->
              IF l = <<"v", 1>> THEN iv[1] ELSE IF l = <<"v", 2>> THEN iv[2]
              ELSE IF l[1] = "in" THEN input[l[2]] ELSE 0]
  /\ t = <<"v", 0>> /\ x = <<"v", 1>> /\ y = <<"v", 2>>
  /\ i = 1 /\ step = 1

Set(l, v) == mem' = [mem EXCEPT ![l] = v]
Keep == UNCHANGED <<key, iv, input, dir>>

EncStep ==
  /\ dir = "enc" /\ i <= Len(input)
  /\ CASE step = 1 -> /\ IF "XorIntoY" \in Dev THEN Set(y, Xor2(mem[y], mem[In(i)])) ELSE Set(x, Xor2(mem[x], mem[In(i)]))
                      /\ UNCHANGED <<t, x, y, i>> /\ step' = 2
       [] step = 2 -> Set(t, ToyE(key, mem[x])) /\ UNCHANGED <<t, x, y, i>> /\ step' = 3
       [] step = 3 -> /\ IF "NoPrevPlain" \in Dev /\ i > 1 THEN UNCHANGED mem ELSE Set(t, Xor2(mem[t], mem[y]))
                      /\ UNCHANGED <<t, x, y, i>> /\ step' = 4
       [] step = 4 -> /\ IF "SwapXY" \in Dev THEN x' = In(i) /\ y' = t ELSE x' = t /\ y' = In(i)
                      /\ UNCHANGED <<mem, t, i>> /\ step' = 5
       [] step = 5 -> Set(Out(i), mem[t]) /\ UNCHANGED <<t, x, y>> /\ i' = i + 1 /\ step' = 1
  /\ Keep

DecStep ==
  /\ dir = "dec" /\ i <= Len(input)
  /\ CASE step = 1 -> Set(y, Xor2(mem[y], mem[In(i)])) /\ UNCHANGED <<t, x, y, i>> /\ step' = 2
       [] step = 2 -> Set(t, ToyD(key, mem[y])) /\ UNCHANGED <<t, x, y, i>> /\ step' = 3
       [] step = 3 -> Set(t, Xor2(mem[t], mem[x])) /\ UNCHANGED <<t, x, y, i>> /\ step' = 4
       [] step = 4 -> y' = t /\ x' = In(i) /\ UNCHANGED <<mem, t, i>> /\ step' = 5
       [] step = 5 -> Set(Out(i), mem[t]) /\ UNCHANGED <<t, x, y>> /\ i' = i + 1 /\ step' = 1
  /\ Keep

Done == i > Len(input) /\ UNCHANGED vars
Next == EncStep \/ DecStep \/ Done
Spec == Init /\ [][Next]_vars /\ WF_vars(Next)

Output == [j \in 1..Len(input) |-> mem[Out(j)]]
\* the caller's input buffer is never written, at any step
InputUntouched == \A j \in 1..Len(input) : mem[In(j)] = input[j]
\* at the end the output equals the IGE definition
MatchesDefinition ==
  i > Len(input) =>
    Output = IF dir = "enc" THEN Def!IgeEnc(key, iv[1], iv[2], input) ELSE Def!IgeDec(key, iv[1], iv[2], input)
\* the definition itself: decryption inverts encryption (every key, IV, message)
DefinitionInverts ==
  /\ Def!IgeDec(key, iv[1], iv[2], Def!IgeEnc(key, iv[1], iv[2], input)) = input
  /\ Def!IgeEnc(key, iv[1], iv[2], Def!IgeDec(key, iv[1], iv[2], input)) = input
Terminates == <>(i > Len(input))

\* padding arithmetic, all residues
PadOK == \A n \in 0..64 : /\ (n + Def!Pad16(n)) % 16 = 0 /\ Def!Pad16(n) \in 0..15
                           /\ (20 + n + Def!WrapPad(n)) % 16 = 0 /\ Def!WrapPad(n) \in 0..15
ASSUME PadOK
=============================================================================
