---------------------------- MODULE Transport ----------------------------
(* C08 - transport framing over a byte stream that the network may split anywhere.

   A writer announces the mode and writes frames; the network moves any number k >= 1 of
   the written-but-undelivered units to the reader's socket buffer at a time; the reader
   (shaped like mode.Detect / abridged.ReadMsg / intermediate.ReadMsg over tcpConn.Read,
   which blocks until exactly the requested count arrived) consumes the announcement, a
   header, and exactly the body the header announces.  The writer may close at a frame
   boundary or after a strict prefix of a frame.

   A "unit" is one header byte or one half of a body (bodies are abstracted to 0 or 2 units;
   the harness maps units to byte ranges).  Header units carry what the real header bytes
   carry: the escape marker or the body size.

   A message the format cannot carry (class "bad": in Abridged mode a length that is not a multiple of four) is refused
   by the writer; a refused message leaves nothing on the stream, and the messages after it travel as if it had never
   been offered.

   Dev: ShortRead - a read returns whatever is buffered instead of blocking for the full
        count (a bare conn.Read instead of io.ReadFull).
        HeaderBeforeRefusal - the length header is written before the message is refused (seeded change C08_14). *)
EXTENDS Integers, Sequences, FiniteSets, TLC

CONSTANTS MaxMsgs, Dev

Modes == {"abridged", "intermediate"}
\* message classes: small = 1-byte header in abridged, big = 0x7f escape + 3 bytes; body units 0 or 2
Classes == {[size |-> s, body |-> b] : s \in {"small", "big"}, b \in {0, 2}} \cup {[size |-> "bad", body |-> 2]}
Carriable(m, c) == c.size # "bad" \/ m = "intermediate"    \* Intermediate carries any length: there "bad" is a small message

VARIABLES mode, msgs, wpos, stream, rbuf, rd, out, closed, result, detected, torn
vars == <<mode, msgs, wpos, stream, rbuf, rd, out, closed, result, detected, torn>>

Ann(m) == IF m = "abridged" THEN <<[k |-> "ann", v |-> "ef"]>>
          ELSE [i \in 1..4 |-> [k |-> "ann", v |-> "ee"]]
Header(m, i, c) ==
  IF m = "abridged"
    THEN IF c.size \in {"small", "bad"} THEN <<[k |-> "len", n |-> c.body, of |-> i]>>
         ELSE <<[k |-> "esc", of |-> i], [k |-> "lenpart", of |-> i], [k |-> "lenpart", of |-> i], [k |-> "len", n |-> c.body, of |-> i]>>
    ELSE <<[k |-> "lenpart", of |-> i], [k |-> "lenpart", of |-> i], [k |-> "lenpart", of |-> i], [k |-> "len", n |-> c.body, of |-> i]>>
Body(i, c) == [j \in 1..c.body |-> [k |-> "body", of |-> i, j |-> j]]
Frame(m, i, c) == Header(m, i, c) \o Body(i, c)

Init ==
  /\ mode \in Modes
  /\ msgs \in UNION {[1..n -> Classes] : n \in 0..MaxMsgs}
  /\ wpos = 0 /\ stream = <<>> /\ rbuf = <<>>
  /\ rd = [pc |-> "ann", need |-> 1, got |-> <<>>]
  /\ out = <<>> /\ closed = FALSE /\ result = "none" /\ detected = "none" /\ torn = 0

(* ---- writer ---- *)
Announce == wpos = 0 /\ ~closed /\ wpos' = 1 /\ stream' = stream \o Ann(mode)
            /\ UNCHANGED <<mode, msgs, rbuf, rd, out, closed, result, detected, torn>>
WriteFrame == /\ wpos >= 1 /\ wpos <= Len(msgs) /\ ~closed /\ Carriable(mode, msgs[wpos])
              /\ stream' = stream \o Frame(mode, wpos, msgs[wpos]) /\ wpos' = wpos + 1
              /\ UNCHANGED <<mode, msgs, rbuf, rd, out, closed, result, detected, torn>>
\* the writer refuses what the format cannot carry: an error for the caller, nothing for the stream
WriteRefuse == /\ wpos >= 1 /\ wpos <= Len(msgs) /\ ~closed /\ ~Carriable(mode, msgs[wpos])
               /\ stream' = IF "HeaderBeforeRefusal" \in Dev THEN stream \o Header(mode, wpos, msgs[wpos]) ELSE stream
               /\ wpos' = wpos + 1
               /\ UNCHANGED <<mode, msgs, rbuf, rd, out, closed, result, detected, torn>>
CloseBoundary == wpos >= 1 /\ ~closed /\ closed' = TRUE
                 /\ UNCHANGED <<mode, msgs, wpos, stream, rbuf, rd, out, result, detected, torn>>
CloseMid(j) == /\ wpos >= 1 /\ wpos <= Len(msgs) /\ ~closed /\ Carriable(mode, msgs[wpos])
               /\ j >= 1 /\ j < Len(Frame(mode, wpos, msgs[wpos]))
               /\ stream' = stream \o SubSeq(Frame(mode, wpos, msgs[wpos]), 1, j)
               /\ closed' = TRUE /\ wpos' = Len(msgs) + 2 /\ torn' = wpos   \* died inside frame `wpos`
               /\ UNCHANGED <<mode, msgs, rbuf, rd, out, result, detected>>

(* ---- network: any split ---- *)
NetDeliver(k) == /\ k >= 1 /\ k <= Len(stream)
                 /\ rbuf' = rbuf \o SubSeq(stream, 1, k) /\ stream' = SubSeq(stream, k + 1, Len(stream))
                 /\ UNCHANGED <<mode, msgs, wpos, rd, out, closed, result, detected, torn>>

(* ---- reader ---- *)
Take(n) == SubSeq(rbuf, 1, n)
Rest(n) == SubSeq(rbuf, n + 1, Len(rbuf))
\* what the reader does with the units `u` it obtained for the current request
Step(u) ==
  CASE rd.pc = "ann" ->
         IF u[1].k = "ann" /\ u[1].v = "ef" THEN [rd |-> [pc |-> "hdr", need |-> 1, got |-> <<>>], det |-> "abridged", dlv |-> FALSE, res |-> "none"]
         ELSE IF u[1].k = "ann" /\ u[1].v = "ee" THEN [rd |-> [pc |-> "ann3", need |-> 3, got |-> <<>>], det |-> detected, dlv |-> FALSE, res |-> "none"]
         ELSE [rd |-> rd, det |-> detected, dlv |-> FALSE, res |-> "err"]
    [] rd.pc = "ann3" ->
         IF \A i \in 1..Len(u) : u[i].k = "ann" /\ u[i].v = "ee"
           THEN [rd |-> [pc |-> "hdr", need |-> 4, got |-> <<>>], det |-> "intermediate", dlv |-> FALSE, res |-> "none"]
           ELSE [rd |-> rd, det |-> detected, dlv |-> FALSE, res |-> "err"]
    [] rd.pc = "hdr" ->
         IF detected = "abridged" /\ u[1].k = "esc"
           THEN [rd |-> [pc |-> "hdr3", need |-> 3, got |-> <<>>], det |-> detected, dlv |-> FALSE, res |-> "none"]
         ELSE IF u[Len(u)].k = "len"
           THEN [rd |-> [pc |-> "body", need |-> u[Len(u)].n, got |-> <<>>], det |-> detected, dlv |-> FALSE, res |-> "none"]
         ELSE [rd |-> rd, det |-> detected, dlv |-> FALSE, res |-> "err"]       \* desynchronised
    [] rd.pc = "hdr3" ->
         IF u[Len(u)].k = "len"
           THEN [rd |-> [pc |-> "body", need |-> u[Len(u)].n, got |-> <<>>], det |-> detected, dlv |-> FALSE, res |-> "none"]
           ELSE [rd |-> rd, det |-> detected, dlv |-> FALSE, res |-> "err"]
    [] rd.pc = "body" ->
         [rd |-> [pc |-> "hdr", need |-> IF detected = "abridged" THEN 1 ELSE 4, got |-> u], det |-> detected, dlv |-> TRUE, res |-> "none"]

Apply(s, n) ==
  /\ rd' = s.rd /\ detected' = s.det /\ result' = s.res
  /\ out' = IF s.dlv THEN Append(out, s.rd.got) ELSE out
  /\ rbuf' = Rest(n)
  /\ UNCHANGED <<mode, msgs, wpos, stream, closed, torn>>

ReadExact == /\ result = "none" /\ Len(rbuf) >= rd.need
             /\ (rd.need > 0 \/ rd.pc = "body")
             /\ Apply(Step(Take(rd.need)), rd.need)
ReadShort == /\ "ShortRead" \in Dev /\ result = "none"
             /\ Len(rbuf) > 0 /\ Len(rbuf) < rd.need
             \* the code compares the count with what it asked for and gives up
             /\ result' = "err" /\ rbuf' = <<>>
             /\ UNCHANGED <<mode, msgs, wpos, stream, rd, out, closed, detected, torn>>
ReadEnd == /\ result = "none" /\ closed /\ stream = <<>> /\ Len(rbuf) < rd.need
           \* io.ReadFull semantics: nothing at all arrived for this request -> EOF, a part -> error
           /\ result' = IF rbuf = <<>> THEN "eof" ELSE "err"
           /\ UNCHANGED <<mode, msgs, wpos, stream, rbuf, rd, out, closed, detected, torn>>

Finished == result # "none" /\ UNCHANGED vars
Next == Announce \/ WriteFrame \/ WriteRefuse \/ CloseBoundary \/ ReadExact \/ ReadShort \/ ReadEnd \/ Finished
        \/ \E j \in 1..5 : CloseMid(j)
        \/ \E k \in 1..12 : NetDeliver(k)
Spec == Init /\ [][Next]_vars
        /\ WF_vars(Announce) /\ WF_vars(WriteFrame) /\ WF_vars(WriteRefuse) /\ WF_vars(CloseBoundary)
        /\ WF_vars(ReadExact) /\ WF_vars(ReadEnd) /\ WF_vars(\E k \in 1..12 : NetDeliver(k))

(* ---- properties ---- *)
Died == wpos = Len(msgs) + 2                 \* the writer died inside a frame
\* complete frames on the stream (a frame cut short does not count); CloseMid records which
\* the messages that travel: positions of the carriable ones, in order
CarIdx == SelectSeq([i \in 1..Len(msgs) |-> i], LAMBDA i : Carriable(mode, msgs[i]))
CarriedBelow(n) == Cardinality({i \in 1..Len(msgs) : i < n /\ Carriable(mode, msgs[i])})
Written == IF Died THEN CarriedBelow(torn) ELSE IF wpos = 0 THEN 0 ELSE CarriedBelow(wpos)
DeliveredIsPrefixOfSent ==
  /\ Len(out) <= Len(CarIdx)
  /\ \A i \in 1..Len(out) : out[i] = Body(CarIdx[i], msgs[CarIdx[i]])
ModeDetected == detected # "none" => detected = mode
\* end of stream at a frame boundary is end-of-stream, after everything written was delivered
EofIsEof == result = "eof" => closed /\ Len(out) = Written
\* an error only when the writer died mid-frame
ErrOnlyMidFrame == result = "err" => closed /\ Died
AllDeliveredAtEof == <>(result # "none")
=============================================================================
