SPECIFICATION Spec
CONSTANTS MaxEpoch = 4
 MaxClose = 2
 MaxMigr = 2
 MaxTick = 4
 Dev = {"StaleLoopReconnects"}
INVARIANTS ConnBudget OneReader CurrentRead Keepalive
PROPERTIES Replaced
CHECK_DEADLOCK FALSE
