SPECIFICATION Spec
CONSTANT Dev = {"NoPadS"}
INVARIANTS RightAccepted WrongRejected EmptyIsNoPassword InvalidBRefused
