SPECIFICATION Spec
CONSTANTS MaxBlocks = 2
 Dev = {"XorIntoY"}
INVARIANTS InputUntouched MatchesDefinition DefinitionInverts
