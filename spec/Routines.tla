---------------------------- MODULE Routines ----------------------------
(* The goroutines behind a connection (mtproto.go CreateConnection / Disconnect / Reconnect, startReadingResponses,
   startPinging) - C16 (reconnect after an orderly close) and C17 (reconnect for a migration) at their common seam,
   plus the keep-alive, which no listed property mentions.

   Every CreateConnection opens connection number `epoch`, with its own context, its own reading routine and its own
   pinging routine.  Disconnect cancels the context of the *current* connection (MTProto.stopRoutines holds only the
   newest cancel function).  A reading routine whose read fails looks at its own context: cancelled - it ends;
   otherwise the server closed the connection and the routine calls Reconnect.  A migrating caller calls Reconnect
   itself.  The pinging routine takes a tick of its one-minute ticker, sends ping and waits for the answer like any
   caller.

   Properties
     ConnBudget   connections are opened for a cause only: 1 + server closes + migrations bounds their number
                  (a routine of an abandoned connection never tears down the connection in use)
     OneReader    at most one reading routine belongs to a connection that is not cancelled
     CurrentRead  while a connection is in use and the server has not closed it, its reading routine is alive
     Keepalive    the client is never silent for two ticks on a connection in use
   Deviations (as the code was / is):
     StaleLoopReconnects  the reading routine does not look at its context before reconnecting (repaired: 768f60d)
     PongIgnored          the loop drops pong instead of handing it to the waiting ping call: the pinging routine
                          waits for ever, one ping per connection is all the keep-alive there is (as coded; outside
                          the listed properties, recorded as an observation in DESIGN section 6)

   Time: a tick happens only when nothing else can move (messages are much faster than the one-minute ticker). *)
EXTENDS Integers, FiniteSets, TLC

CONSTANTS MaxEpoch, MaxClose, MaxMigr, MaxTick, Dev

VARIABLES epoch,       \* number of the connection in use (0: none yet)
          cancelled,   \* connections whose context is cancelled
          srvOpen,     \* connections the server has not closed
          loop,        \* reading routine per connection: "none" | "reading" | "failed" | "done"
          pinger,      \* pinging routine per connection: "none" | "idle" | "calling" | "done"
          pong,        \* connections with a pong on its way to the client
          pending,     \* a tick is waiting in the ticker's channel (capacity 1), per connection
          silent,      \* ticks since the client last wrote on the connection in use
          opened, closes, migr, ticks
vars == <<epoch, cancelled, srvOpen, loop, pinger, pong, pending, silent, opened, closes, migr, ticks>>

Conn == 1..MaxEpoch

Init == /\ epoch = 0 /\ cancelled = {} /\ srvOpen = {} /\ pong = {} /\ pending = {}
        /\ loop = [e \in Conn |-> "none"] /\ pinger = [e \in Conn |-> "none"]
        /\ silent = 0 /\ opened = 0 /\ closes = 0 /\ migr = 0 /\ ticks = 0

\* CreateConnection: a new context, transport, reading routine, pinging routine
Create(lp, pg) ==
  /\ epoch < MaxEpoch /\ epoch' = epoch + 1 /\ opened' = opened + 1
  /\ srvOpen' = srvOpen \cup {epoch + 1}
  /\ loop' = [lp EXCEPT ![epoch + 1] = "reading"]
  /\ pinger' = [pg EXCEPT ![epoch + 1] = "idle"]
  /\ silent' = 0

\* Disconnect: cancels the newest context only
Disconnected == IF epoch = 0 THEN cancelled ELSE cancelled \cup {epoch}

Start == /\ epoch = 0 /\ Create(loop, pinger)
         /\ UNCHANGED <<cancelled, pong, pending, closes, migr, ticks>>

SrvClose == /\ epoch > 0 /\ epoch \in srvOpen /\ epoch \notin cancelled /\ closes < MaxClose
            /\ pong = {}                                     \* an orderly close: nothing on its way
            /\ srvOpen' = srvOpen \ {epoch} /\ closes' = closes + 1
            /\ UNCHANGED <<epoch, cancelled, loop, pinger, pong, pending, silent, opened, migr, ticks>>

\* the read of connection e fails: the server closed it, or its context was cancelled (CloseOnCancel)
ReadFails(e) == /\ loop[e] = "reading" /\ (e \notin srvOpen \/ e \in cancelled)
                /\ loop' = [loop EXCEPT ![e] = "failed"]
                /\ UNCHANGED <<epoch, cancelled, srvOpen, pinger, pong, pending, silent, opened, closes, migr, ticks>>

\* the reading routine decides: its own context cancelled - it is not its connection any more
LoopEnds(e) == /\ loop[e] = "failed" /\ e \in cancelled /\ "StaleLoopReconnects" \notin Dev
               /\ loop' = [loop EXCEPT ![e] = "done"]
               /\ UNCHANGED <<epoch, cancelled, srvOpen, pinger, pong, pending, silent, opened, closes, migr, ticks>>

\* ... otherwise Reconnect: Disconnect (of the connection in use!) and CreateConnection; the routine itself ends at
\* the next look at its context
LoopReconnects(e) ==
  /\ loop[e] = "failed" /\ (e \notin cancelled \/ "StaleLoopReconnects" \in Dev)
  /\ cancelled' = Disconnected
  /\ Create([loop EXCEPT ![e] = "done"], pinger)
  /\ UNCHANGED <<pong, pending, closes, migr, ticks>>

\* a caller is told PHONE_MIGRATE_X: Reconnect at the other address
Migrate == /\ epoch > 0 /\ epoch \in srvOpen /\ epoch \notin cancelled /\ migr < MaxMigr
           /\ cancelled' = Disconnected /\ migr' = migr + 1
           /\ Create(loop, pinger)
           /\ UNCHANGED <<pong, pending, closes, ticks>>

\* ---- keep-alive ----
Quiet == /\ \A e \in Conn : loop[e] # "failed" /\ ~(loop[e] = "reading" /\ (e \notin srvOpen \/ e \in cancelled))
         /\ \A e \in Conn : ~(pinger[e] = "idle" /\ (e \in pending \/ e \in cancelled))
         /\ pong = {}

Tick == /\ epoch > 0 /\ Quiet /\ ticks < MaxTick /\ ticks' = ticks + 1
        /\ pending' = pending \cup {e \in Conn : pinger[e] \in {"idle", "calling"}}
        /\ silent' = silent + 1
        /\ UNCHANGED <<epoch, cancelled, srvOpen, loop, pinger, pong, opened, closes, migr>>

PingerEnds(e) == /\ pinger[e] = "idle" /\ e \in cancelled
                 /\ pinger' = [pinger EXCEPT ![e] = "done"]
                 /\ UNCHANGED <<epoch, cancelled, srvOpen, loop, pong, pending, silent, opened, closes, migr, ticks>>

\* takes the tick and sends ping on the transport in use (the routine has no transport of its own)
PingerPings(e) == /\ pinger[e] = "idle" /\ e \notin cancelled /\ e \in pending
                  /\ pending' = pending \ {e}
                  \* (a write on a connection the server has closed fails: the call returns an error at once)
                  /\ pinger' = [pinger EXCEPT ![e] = IF epoch \in srvOpen THEN "calling" ELSE "idle"]
                  /\ pong' = IF epoch \in srvOpen THEN pong \cup {epoch} ELSE pong
                  /\ silent' = IF e = epoch THEN 0 ELSE silent
                  /\ UNCHANGED <<epoch, cancelled, srvOpen, loop, opened, closes, migr, ticks>>

\* the loop of connection e reads pong: the waiting ping call returns (as specified) / nothing happens (as coded)
PongArrives(e) == /\ e \in pong /\ loop[e] = "reading" /\ e \in srvOpen /\ e \notin cancelled
                  /\ pong' = pong \ {e}
                  /\ pinger' = IF "PongIgnored" \in Dev THEN pinger
                               ELSE [x \in Conn |-> IF x = e /\ pinger[x] = "calling" THEN "idle" ELSE pinger[x]]
                  /\ UNCHANGED <<epoch, cancelled, srvOpen, loop, pending, silent, opened, closes, migr, ticks>>

\* a pong for a connection that is gone is lost with it
PongLost(e) == /\ e \in pong /\ (e \in cancelled \/ e \notin srvOpen)
               /\ pong' = pong \ {e}
               /\ UNCHANGED <<epoch, cancelled, srvOpen, loop, pinger, pending, silent, opened, closes, migr, ticks>>

Next == \/ Start \/ SrvClose \/ Migrate \/ Tick
        \/ \E e \in Conn : ReadFails(e) \/ LoopEnds(e) \/ LoopReconnects(e) \/ PingerEnds(e) \/ PingerPings(e)
                            \/ PongArrives(e) \/ PongLost(e)
Spec == Init /\ [][Next]_vars /\ WF_vars(Next)

ConnBudget == opened <= 1 + closes + migr
OneReader == Cardinality({e \in Conn : loop[e] \in {"reading", "failed"} /\ e \notin cancelled}) <= 1
CurrentRead == epoch > 0 /\ epoch \notin cancelled /\ epoch \in srvOpen => loop[epoch] = "reading"
Keepalive == epoch > 0 /\ epoch \notin cancelled /\ epoch \in srvOpen => silent <= 1
\* every connection the server closed is replaced (while the bound allows another one)
Replaced == [](epoch > 0 /\ epoch \notin srvOpen /\ epoch < MaxEpoch => <>(epoch \in srvOpen))
=============================================================================
