CONSTANT MaxLZ = 2
