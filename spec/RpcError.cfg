SPECIFICATION Spec
CONSTANT Dev = {}
INVARIANTS Total Agrees UniqueRow
PROPERTY Terminates
