SPECIFICATION GSpec
CONSTANTS MaxRot = 3
 MaxStarts = 4
 MaxCalls = 7
 Dev = {}
CHECK_DEADLOCK FALSE
