---------------------------- MODULE SchemaXlate ----------------------------
(* C13 (structural part) - what a faithful translation of a TL schema is.

   Input (IOEnv): VERIF_SCHEMA - the definitions of the shipped .tl files as lexed by the
   harness's own lexer (tokens and code points, no interpretation); VERIF_REGISTRY - the
   constructor registry of the binary built from the working tree, by reflection.
   SchemaDefs holds the interpretation (canonical line, CRC-32, T(def)); here: Faithful - every
   definition in scope has exactly one registered type equal to T(def), its id is the CRC-32 of
   its canonical line, and nothing else is registered.  Disagreements go to IOEnv.VERIF_OUT. *)
EXTENDS SchemaDefs
Registry == JsonDeserialize(IOEnv.VERIF_REGISTRY)
\* the hand-written generic request wrappers, described like registry entries under the schema id they stand for
\* (their own CRC() and byte layout are checked by the wrapper cases of TLCodecGen)
Wrappers == JsonDeserialize(IOEnv.VERIF_WRAPPERS)

(* ---------------- scope ---------------- *)
\* hand-written / special definitions: compared by id only (their Go types have own codecs or are
\* generic request wrappers), see DESIGN section 5 C13
SpecialNames == {"msg_container", "gzip_packed", "msg_copy", "rpc_result", "future_salts", "message"}
\* mtproto service definitions that the client neither sends nor can receive (not wire-used)
NotWireUsed == {"destroy_session_ok", "destroy_session_none", "rpc_drop_answer", "get_future_salts", "ping_delay_disconnect",
                "destroy_session", "http_wait", "future_salt", "future_salts", "rpc_answer_unknown", "rpc_answer_dropped_running",
                "rpc_answer_dropped"}
InScope(k) == ~(Schema[k].file = "mtproto.tl" /\ Schema[k].name \in NotWireUsed)

RegIdx(idhex) == {r \in 1..Len(Registry) : Registry[r].idhex = idhex}
RegFields(r) == [j \in 1..Len(Registry[r].fields) |->
                   [kind |-> Registry[r].fields[j].kind, vec |-> Registry[r].fields[j].vec, bit |-> Registry[r].fields[j].bit]]

FieldsOf(e) == [j \in 1..Len(e.fields) |-> [kind |-> e.fields[j].kind, vec |-> e.fields[j].vec, bit |-> e.fields[j].bit]]
NamesOf(e) == [j \in 1..Len(e.fields) |-> e.fields[j].lname]
ParamNames(k) == [j \in 1..Len(DataParams(k)) |-> DataParams(k)[j].lname]
\* entry e (a registry or wrapper entry) against T(k).  Names tell fields of equal type apart; the hand-written MTProto
\* service objects abbreviate a few of them: the abbreviations are listed here
Abbrev == [fingerprints |-> "serverpublickeyfingerprints", retry |-> "retryid", obj |-> "result", code |-> "errorcode",
           newsalt |-> "newserversalt"]
Full(n) == IF n \in DOMAIN Abbrev THEN Abbrev[n] ELSE n
NamesAgree(k, e) == \A j \in 1..Len(e.fields) :
                      NamesOf(e)[j] = ParamNames(k)[j] \/ (Schema[k].file = "mtproto.tl" /\ Full(NamesOf(e)[j]) = ParamNames(k)[j])
StructProblem(k, e) ==
  IF e.kind # "struct" THEN "struct-constructor-not-a-struct"
  ELSE IF e.flagidx # T(k).flagidx THEN "flags-word-position"
  ELSE IF Len(e.fields) # Len(T(k).fields) THEN "field-count"
  ELSE IF \E j \in 1..Len(T(k).fields) : FieldsOf(e)[j].kind # T(k).fields[j].kind THEN "field-kind-or-order"
  ELSE IF \E j \in 1..Len(T(k).fields) : FieldsOf(e)[j].vec # T(k).fields[j].vec THEN "vector-marker"
  ELSE IF \E j \in 1..Len(T(k).fields) : FieldsOf(e)[j].bit # T(k).fields[j].bit THEN "conditional-bit"
  ELSE IF ~NamesAgree(k, e) THEN "field-name-or-order"
  ELSE ""

Problem(k) ==  \* "" when definition k is translated faithfully
  LET d == Schema[k]
      rs == RegIdx(d.idhex)
      crc == Crc32(Canon(d.text))
      ws == {j \in 1..Len(Wrappers) : Wrappers[j].idhex = d.idhex}
  IN IF d.name # "msg_container" /\ ~d.commented /\ <<crc[1], crc[2]>> # <<d.id[1], d.id[2]>> THEN "id-is-not-crc32-of-canonical-line"
     ELSE IF d.generic THEN (IF ws = {} THEN "wrapper-missing" ELSE StructProblem(k, Wrappers[CHOOSE j \in ws : TRUE]))
     ELSE IF Cardinality(rs) = 0 THEN "not-registered"
     ELSE IF Cardinality(rs) > 1 THEN "registered-twice"
     ELSE LET r == CHOOSE x \in rs : TRUE IN
          IF d.name \in SpecialNames THEN ""
          ELSE IF IsEnumCtor(k) THEN (IF Registry[r].kind = "enum" THEN "" ELSE "enum-constructor-not-an-enum")
          ELSE StructProblem(k, Registry[r])

SchemaIds == {Schema[k].idhex : k \in Defs}
Extra == {r \in 1..Len(Registry) : Registry[r].idhex \notin SchemaIds}

Findings ==
  LET ks == SetToSeq({k \in Defs : InScope(k)})
      ps == [j \in 1..Len(ks) |-> [idhex |-> Schema[ks[j]].idhex, name |-> Schema[ks[j]].name, problem |-> Problem(ks[j])]]
      es == SetToSeq(Extra)
  IN SelectSeq(ps, LAMBDA x : x.problem # "")
     \o [j \in 1..Len(es) |-> [idhex |-> Registry[es[j]].idhex, name |-> Registry[es[j]].go, problem |-> "registered-but-not-in-schema"]]

ASSUME ndJsonSerialize(IOEnv.VERIF_OUT, Findings)
ASSUME PrintT(<<"definitions", Cardinality(Defs), "registry", Len(Registry), "findings", Len(Findings)>>)
=============================================================================
