SPECIFICATION Spec
CONSTANTS Dev = {}
 SkipCheck <- SkipInner
 LZ = {0, 1, 2}
INVARIANTS Agreement NeverPanics LieImpliesAbort StoredIffDone NoEncryptedFrameUnlessDone
PROPERTIES HonestCompletes LieEventuallyAborts
