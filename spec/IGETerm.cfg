CONSTANTS BlockCounts = {1, 2, 3, 4, 5, 8}
 MaxPayload = 48
