SPECIFICATION Spec
CONSTANTS Dev = {"LengthGuardInverted"}
 BodyLens = {0, 4, 12, 16, 20}
INVARIANTS NeverPanics OpensToSealed AlteredRefused HolderConsistent PacketShape
