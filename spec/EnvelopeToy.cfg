SPECIFICATION Spec
CONSTANTS Dev = {}
 BodyLens = {0, 4, 12, 16, 20}
INVARIANTS NeverPanics OpensToSealed AlteredRefused HolderConsistent PacketShape
PROPERTY Terminates
