CONSTANTS MaxSegs = 2
 Dev = {}
