SPECIFICATION Spec
CONSTANTS MaxSegs = 1
 Dev = {"BareHostIndexMinusOne"}
INVARIANTS TypeOK Total Agrees
