---------------------------- MODULE Terms ----------------------------
(* Constructors of the symbolic terms interpreted by /verif/harness/term (DESIGN 2.3).
   A term is a record [op, a, ...]; the Go interpreter supplies only the primitives. *)
EXTENDS Integers, Sequences

Var(name)      == [op |-> "var", name |-> name]
IntLit(n)      == [op |-> "int", n |-> n]
Lit(bytes)     == [op |-> "lit", b |-> bytes]
Cat2(x, y)     == [op |-> "cat", a |-> <<x, y>>]
CatSeq(s)      == [op |-> "cat", a |-> s]
Slice(x, i, j) == [op |-> "slice", a |-> <<x>>, i |-> i, j |-> j]      \* bytes i (incl.) .. j (excl.)
LenOf(x)       == [op |-> "len", a |-> <<x>>]
Sha1(x)        == [op |-> "sha1", a |-> <<x>>]
Sha256(x)      == [op |-> "sha256", a |-> <<x>>]
AesE(k, b)     == [op |-> "aes_e", a |-> <<k, b>>]
AesD(k, b)     == [op |-> "aes_d", a |-> <<k, b>>]
XorT(x, y)     == [op |-> "xor", a |-> <<x, y>>]
LE(w, x)       == [op |-> "le", n |-> w, a |-> <<x>>]                 \* w-byte little-endian of an int
BE(w, x)       == [op |-> "be", n |-> w, a |-> <<x>>]                 \* w-byte big-endian, zero padded
Strip(x)       == [op |-> "strip", a |-> <<x>>]                       \* minimal big-endian
LAlign(w, x)   == [op |-> "lalign", n |-> w, a |-> <<x>>]             \* copied left-aligned into w zero bytes
IntBE(x)       == [op |-> "int_be", a |-> <<x>>]
IntLE(x)       == [op |-> "int_le", a |-> <<x>>]
ModExp(b, e, m) == [op |-> "modexp", a |-> <<b, e, m>>]
Mul(x, y)      == [op |-> "mul", a |-> <<x, y>>]
Add(x, y)      == [op |-> "add", a |-> <<x, y>>]
Sub(x, y)      == [op |-> "sub", a |-> <<x, y>>]
Mod(x, y)      == [op |-> "mod", a |-> <<x, y>>]
Zeros(n)       == [op |-> "zeros", n |-> n]
Free(n)        == [op |-> "free", n |-> n]                            \* n bytes the specification leaves open
Pbkdf2Sha512(pw, salt, iters, keylen) == [op |-> "pbkdf2_sha512", a |-> <<pw, salt>>, n |-> iters, i |-> keylen]

DSlice(x, i, j) == [op |-> "dslice", a |-> <<x, i, j>>]              \* bounds are int terms
SIntLE(x)      == [op |-> "sint_le", a |-> <<x>>]                     \* signed little-endian integer
IgeEP(k, iv, d) == [op |-> "ige_e", a |-> <<k, iv, d>>]               \* whole-string IGE (primitive; checked against
IgeDP(k, iv, d) == [op |-> "ige_d", a |-> <<k, iv, d>>]               \*  the unfolded definition by the C05 run)
Le(x, y) == <<"le", x, y>>                                            \* check: int x <= int y

\* the 16-byte blocks of x (nblocks of them)
BlocksOf(x, nblocks) == [i \in 1..nblocks |-> Slice(x, 16 * (i - 1), 16 * i)]
Eq(x, y) == <<"eq", x, y>>
=============================================================================
