CONSTANTS MaxSegs = 3
 Dev = {}
