SPECIFICATION Spec
CONSTANTS MaxLen = 4
 Dev = {}
INVARIANTS Total AllocBounded BoundedSteps ValueMeansComplete
PROPERTY Terminates
