---------------------------- MODULE BootstrapTrace ----------------------------
(* Evaluator for recorded bootstrap runs (harness: `verif bootstrap`), the observable level of Bootstrap.tla.  Per scenario
   the log holds what Bootstrap.tla says about the case (Reset: must NewClient succeed, is a key exchange due, where may the
   migrating call end up), what the four servers saw (Conn, Plain = a key-exchange message, Init = the wrapped help.getConfig
   with its fields as the server read them, Req = an ordinary request, Unreadable) and what the application saw (NewClient,
   Call / Return).  One deterministic step per line; what the specification cannot explain is appended to `bad`. *)
EXTENDS Integers, Sequences, FiniteSets, TLC, Json, IOUtils

Trace == ndJsonDeserialize(IOEnv.VERIF_TRACE)
VARIABLES i, sc, exp, conns, plain, first, made, mig, bad
vars == <<i, sc, exp, conns, plain, first, made, mig, bad>>
Ev == Trace[i]
Is(e) == i <= Len(Trace) /\ Ev.e = e /\ i' = i + 1
Note(kind) == Append(bad, [sc |-> sc, pos |-> i, kind |-> kind])
NoExp == [ok |-> TRUE, exchange |-> TRUE, migrate |-> 0, targets |-> <<>>, api_id |-> 0, given |-> FALSE, device |-> "", sysver |-> "", appver |-> ""]
Layer == 121        \* the layer of the shipped schema (api_121.tl)

Init == i = 1 /\ sc = 0 /\ exp = NoExp /\ conns = {} /\ plain = FALSE /\ first = "none" /\ made = "none" /\ mig = -1 /\ bad = <<>>
Reset == /\ Is("Reset") /\ sc' = Ev.sc
         /\ exp' = [ok |-> Ev.ok, exchange |-> Ev.exchange, migrate |-> Ev.migrate, targets |-> Ev.targets, api_id |-> Ev.api_id,
                    given |-> Ev.given, device |-> Ev.device, sysver |-> Ev.sysver, appver |-> Ev.appver]
         /\ conns' = {} /\ plain' = FALSE /\ first' = "none" /\ made' = "none" /\ mig' = -1 /\ UNCHANGED bad
Conn == /\ Is("Conn") /\ conns' = conns \cup {Ev.srv}
        /\ bad' = IF Ev.srv = "cdn" THEN Note("cdn-mirror-contacted")
                  ELSE IF ~exp.ok THEN Note("contact-despite-unusable-files") ELSE bad
        /\ UNCHANGED <<sc, exp, plain, first, made, mig>>
Plain == /\ Is("Plain") /\ plain' = TRUE
         /\ bad' = IF ~exp.exchange /\ ~plain THEN Note("key-exchange-although-the-session-file-holds-a-session") ELSE bad
         /\ UNCHANGED <<sc, exp, conns, first, made, mig>>
FieldsOK(e) ==
  /\ e.wellformed /\ e.layer = Layer /\ e.api_id = exp.api_id
  /\ IF exp.given THEN e.device = exp.device /\ e.sysver = exp.sysver /\ e.appver = exp.appver
     ELSE e.device # "" /\ e.sysver # "" /\ e.appver # ""
  /\ e.syslang # "" /\ e.lang # ""
InitReq == /\ Is("Init") /\ first' = IF first = "none" THEN "init" ELSE first
           /\ bad' = IF ~FieldsOK(Ev) THEN Note("init-request-not-as-the-schema-and-the-configuration-say") ELSE bad
           /\ UNCHANGED <<sc, exp, conns, plain, made, mig>>
Req == /\ Is("Req") /\ first' = IF first = "none" THEN "other" ELSE first
       /\ bad' = IF first = "none" THEN Note("request-before-the-init-request") ELSE bad
       /\ UNCHANGED <<sc, exp, conns, plain, made, mig>>
Unreadable == Is("Unreadable") /\ bad' = Note("frame-server-cannot-open") /\ UNCHANGED <<sc, exp, conns, plain, first, made, mig>>
NewClient ==
  /\ Is("NewClient") /\ made' = IF Ev.ok THEN "ok" ELSE "failed"
  /\ bad' = IF Ev.timeout THEN Note("newclient-never-returned")
            ELSE IF exp.ok /\ ~Ev.ok THEN Note("newclient-failed")
            ELSE IF ~exp.ok /\ Ev.ok THEN Note("unusable-files-accepted")
            ELSE IF Ev.ok /\ first # "init" THEN Note("no-init-request")
            ELSE bad
  /\ UNCHANGED <<sc, exp, conns, plain, first, mig>>
Call == Is("Call") /\ mig' = Ev.migrate /\ UNCHANGED <<sc, exp, conns, plain, first, made, bad>>
InTargets(s) == \E k \in 1..Len(exp.targets) : exp.targets[k] = s
Return ==
  /\ Is("Return") /\ mig' = -1
  /\ bad' = IF Ev.timeout THEN Note("call-never-returned")
            ELSE IF mig = 0 THEN (IF Ev.ok /\ Ev.from = "home" THEN bad ELSE Note("ordinary-call-failed"))
            ELSE IF exp.targets # <<>> THEN (IF Ev.ok /\ InTargets(Ev.from) THEN bad ELSE Note("migration-not-to-a-configured-address"))
            ELSE (IF Ev.ok THEN Note("migration-to-an-unconfigured-data-centre-did-not-fail") ELSE bad)
  /\ UNCHANGED <<sc, exp, conns, plain, first, made>>
End == Is("End") /\ UNCHANGED <<sc, exp, conns, plain, first, made, mig, bad>>
Finish == /\ i = Len(Trace) + 1 /\ i' = i + 1 /\ ndJsonSerialize(IOEnv.VERIF_OUT, bad)
          /\ UNCHANGED <<sc, exp, conns, plain, first, made, mig, bad>>
Next == Reset \/ Conn \/ Plain \/ InitReq \/ Req \/ Unreadable \/ NewClient \/ Call \/ Return \/ End \/ Finish
Spec == Init /\ [][Next]_vars
TraceAccepted == TLCGet("stats").diameter = Len(Trace) + 2
=============================================================================
