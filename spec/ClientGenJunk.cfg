SPECIFICATION GSpec
CONSTANTS Callers = {c1, c2, c3}
 MaxTick = 6
 MaxRot = 1
 MaxAtt = 2
 FreshKey = FALSE
 MaxJunk = 2
 MaxClose = 0
 MaxBad = 0
 Kinds = {"obj"}
 Dev = {}
CHECK_DEADLOCK FALSE
