CONSTANTS Stride = 6
 Seed = 1
 StrLens = {0, 1, 2, 3, 4, 5, 252, 253, 254, 255, 256, 257}
 BigLens = {65535, 65536, 16777215, 16777216}
