---------------------------- MODULE TLDecoder ----------------------------
(* C15 - the TL decoder as a machine over arbitrary word streams.

   A stream is a sequence of 32-bit word classes: ids of registered struct constructors
   (S1 implements interface A and has fields <<int, B>>; S2 implements B with a Vector<int>
   field; S3 implements B without fields), an enum id (E1, of an enum type that implements no
   interface), the vector / boolTrue / boolFalse / null ids, an unregistered id, and the boundary
   integers 0, 1, 2, -1, 2^31-1, 2^31.  The machine is shaped like decodeRegisteredObject /
   decodeObject / popVector: a stack of expectations, a cursor, a sticky error, and a counter of
   the elements it allocates.

   Properties: Total (every stream ends in `value` or `error`, never `panic`, within a bounded
   number of steps), AllocBounded (never allocates more elements than the remaining input can
   fill), StickyError.

   Dev: EnumWhereObjectPanics, WrongInterfacePanics, AllocByAnnouncedCount (each as found in the
   original tree). *)
EXTENDS Integers, Sequences, FiniteSets, TLC
CONSTANTS MaxLen, Dev

Ids == {"S1", "S2", "S3", "E1", "VEC", "TRUE", "FALSE", "NULL", "UNK"}
Ints == {"i0", "i1", "i2", "im1", "imax", "imin"}
Tokens == Ids \cup Ints
CountOf(t) == CASE t = "i0" -> 0 [] t = "i1" -> 1 [] t = "i2" -> 2 [] OTHER -> 1000000   \* everything else is a huge count
Implements == [S1 |-> {"A"}, S2 |-> {"B"}, S3 |-> {"B"}]
FieldsOf == [S1 |-> <<[t |-> "int"], [t |-> "obj", iface |-> "B"]>>, S2 |-> <<[t |-> "vecint"]>>, S3 |-> <<>>]

VARIABLES stream, hints, pos, stack, alloc, pc, steps
vars == <<stream, hints, pos, stack, alloc, pc, steps>>

Init == /\ stream \in UNION {[1..n -> Tokens] : n \in 0..MaxLen}
        /\ hints \in BOOLEAN                                   \* a vector hint was supplied (Vector<int>)
        /\ pos = 1 /\ stack = <<[t |-> "obj", iface |-> "any"]>> /\ alloc = 0 /\ pc = "run" /\ steps = 0

Remaining == Len(stream) - pos + 1
Fail(p) == pc' = p /\ UNCHANGED <<stream, hints, pos, stack, alloc>> /\ steps' = steps + 1
Push(fs, adv) == /\ stack' = fs \o Tail(stack) /\ pos' = pos + adv /\ pc' = "run"
                 /\ UNCHANGED <<stream, hints, alloc>> /\ steps' = steps + 1

Step ==
  /\ pc = "run"
  /\ IF stack = <<>> THEN pc' = "value" /\ UNCHANGED <<stream, hints, pos, stack, alloc>> /\ steps' = steps + 1
     ELSE IF Remaining <= 0 THEN Fail("error")                                   \* short read: sticky error
     ELSE LET f == Head(stack) tk == stream[pos] IN
     CASE f.t = "int" -> Push(<<>>, 1)
       [] f.t = "vecint" ->          \* vector id, count, elements
            IF tk # "VEC" \/ Remaining < 2 THEN Fail("error")
            ELSE LET n == CountOf(stream[pos + 1]) IN
                 IF "AllocByAnnouncedCount" \in Dev
                   THEN /\ alloc' = alloc + n /\ stack' = [j \in 1..(IF n > MaxLen THEN MaxLen + 1 ELSE n) |-> [t |-> "int"]] \o Tail(stack)
                        /\ pos' = pos + 2 /\ pc' = "run" /\ UNCHANGED <<stream, hints>> /\ steps' = steps + 1
                   ELSE IF n > Remaining - 2 THEN Fail("error")                      \* cannot be filled by what is left
                   ELSE /\ alloc' = alloc + n /\ stack' = [j \in 1..n |-> [t |-> "int"]] \o Tail(stack)
                        /\ pos' = pos + 2 /\ pc' = "run" /\ UNCHANGED <<stream, hints>> /\ steps' = steps + 1
       [] f.t = "obj" ->
            IF tk \in {"S1", "S2", "S3"}
              THEN IF f.iface = "any" \/ f.iface \in Implements[tk] THEN Push(FieldsOf[tk], 1)
                   ELSE IF "WrongInterfacePanics" \in Dev THEN Fail("panic") ELSE Fail("error")
            ELSE IF tk = "E1"
              THEN IF "EnumWhereObjectPanics" \in Dev THEN Fail("panic")
                   ELSE IF f.iface = "any" THEN Push(<<>>, 1) ELSE Fail("error")
            ELSE IF tk \in {"TRUE", "FALSE", "NULL"}
              THEN IF f.iface = "any" THEN Push(<<>>, 1)
                   ELSE IF "WrongInterfacePanics" \in Dev THEN Fail("panic") ELSE Fail("error")
            ELSE IF tk = "VEC"
              THEN IF f.iface = "any" /\ hints THEN Push(<<[t |-> "vecint"]>>, 0) ELSE Fail("error")
            ELSE Fail("error")                                                   \* unregistered id / an integer where an id is expected
Done == pc \in {"value", "error", "panic"} /\ UNCHANGED vars
Next == Step \/ Done
Spec == Init /\ [][Next]_vars /\ WF_vars(Step)

Total == pc # "panic"
AllocBounded == alloc <= Len(stream)
BoundedSteps == steps <= 2 * Len(stream) + 2
Terminates == <>(pc \in {"value", "error"})
\* a value is only produced when the whole expectation stack was satisfied
ValueMeansComplete == pc = "value" => stack = <<>>
=============================================================================
