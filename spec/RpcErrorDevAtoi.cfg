SPECIFICATION Spec
CONSTANT Dev = {"AtoiPanics"}
INVARIANTS Total
