SPECIFICATION Spec
CONSTANT BitsU = {0, 1, 31}
INVARIANT SubsetOK
CHECK_DEADLOCK FALSE
