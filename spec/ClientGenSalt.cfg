SPECIFICATION GSpec
CONSTANTS Callers = {c1, c2, c3}
 MaxTick = 8
 MaxRot = 2
 MaxAtt = 3
 FreshKey = FALSE
 MaxJunk = 0
 MaxClose = 0
 MaxBad = 0
 Kinds = {"obj"}
 Dev = {"GenIdOutsideLock"}
CHECK_DEADLOCK FALSE
