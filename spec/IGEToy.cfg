SPECIFICATION Spec
CONSTANTS MaxBlocks = 2
 Dev = {}
INVARIANTS InputUntouched MatchesDefinition DefinitionInverts
PROPERTY Terminates
