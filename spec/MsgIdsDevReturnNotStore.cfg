SPECIFICATION Spec
CONSTANTS
  Callers = {"a", "b"}
  Dev = {"ReturnNotStore"}
  ClockVals <- SmallClock
CONSTRAINT Bounded
INVARIANTS Safety
CHECK_DEADLOCK FALSE
