---------------------------- MODULE TLCodecMC ----------------------------
(* C01 / C02 - the wire-format definition TLCodec checked on a synthetic universe: every layout
   of up to MaxFields fields over the field kinds, with conditional bits from {none, 0, 1, 31}
   (shared bits included) and the flags word at every position, and every value built from small
   value classes.  TLC checks, for every (layout, normal value):
     WordAligned    the image is a whole number of 32-bit words
     FlagsMatch     the flags word has exactly the bits of the present groups
     RoundTrip      a decoder that knows only the layout reads the image back to the value
     GroupRule      non-normal values (a group with present and absent members) are not encodable
                    unambiguously: the decoder does NOT get them back (this is why the code must
                    carry every member of a present group) *)
EXTENDS Integers, Sequences, FiniteSets, TLC
CONSTANTS MaxFields

C == INSTANCE TLCodec

Kinds == {"int", "long", "string", "bool", "true", "vecint", "big"}
BitsU == {-1, 0, 1, 31}
Desc(kind, bit) == [kind |-> IF kind = "vecint" THEN "int" ELSE IF kind = "big" THEN "int128" ELSE kind,
                    vec |-> kind = "vecint", barevec |-> FALSE, bit |-> bit]
FieldDescs == {Desc(k, b) : k \in Kinds, b \in BitsU} \ {Desc("true", -1)}
FlagsDesc == [kind |-> "flags", vec |-> FALSE, barevec |-> FALSE, bit |-> -1]

\* values of one field
ValuesOf(fd) ==
  (IF fd.bit >= 0 /\ fd.kind # "true" THEN {[k |-> "absent"]} ELSE {}) \cup
  (CASE fd.vec -> {[k |-> "vec", e |-> <<>>], [k |-> "vec", e |-> <<[k |-> "int", c |-> "one"], [k |-> "int", c |-> "zero"]>>]}
     [] fd.kind = "int" -> {[k |-> "int", c |-> x] : x \in {"zero", "pat", "min"}}
     [] fd.kind = "long" -> {[k |-> "long", c |-> x] : x \in {"zero", "minus1"}}
     [] fd.kind = "string" -> {[k |-> "str", len |-> n, tag |-> 1] : n \in {0, 1, 3, 253, 254}}
     [] fd.kind = "bool" -> {[k |-> "bool", b |-> x] : x \in BOOLEAN}
     [] fd.kind = "true" -> {[k |-> "true", b |-> x] : x \in BOOLEAN}
     [] fd.kind = "int128" -> {[k |-> "big", w |-> 16, lz |-> z, tag |-> 1] : z \in {0, 2}})

VARIABLES layout, value
vars == <<layout, value>>

DataOf(L) == SelectSeq(L, LAMBDA fd : fd.kind # "flags")
NeedsFlags(L) == \E j \in 1..Len(L) : L[j].bit >= 0
WithFlags(L, p) == SubSeq(L, 1, p) \o <<FlagsDesc>> \o SubSeq(L, p + 1, Len(L))   \* flags word after p fields

Init ==
  /\ \E n \in 1..MaxFields : \E fs \in [1..n -> FieldDescs] :
        IF NeedsFlags(fs)
          THEN \E p \in 0..((CHOOSE j \in 1..n : fs[j].bit >= 0 /\ \A m \in 1..(j - 1) : fs[m].bit < 0) - 1) :
                 layout = WithFlags(fs, p)        \* the flags word at every position before the first conditional field
          ELSE layout = fs
  /\ value \in [1..Len(DataOf(layout)) -> UNION {ValuesOf(fd) : fd \in FieldDescs}]
  /\ \A j \in 1..Len(DataOf(layout)) : value[j] \in ValuesOf(DataOf(layout)[j])
Next == UNCHANGED vars
Spec == Init /\ [][Next]_vars

Obj == [k |-> "obj", id |-> <<1, 2>>, bare |-> FALSE, layout |-> layout, f |-> value]
Img == C!EncObj(Obj)

(* ---- a decoder that knows only the layout ---- *)
Classes == {"zero", "one", "pat", "min", "max", "minus1"}
Class32(v) == IF \E x \in Classes : C!Int32Class(x) = v THEN CHOOSE x \in Classes : C!Int32Class(x) = v ELSE "other"
Class64(v) == IF \E x \in Classes : C!Int64Class(x) = v THEN CHOOSE x \in Classes : C!Int64Class(x) = v ELSE "other"
\* reads field fd at chunk position pos; returns [v, pos] (pos = 0: cannot)
ReadField(fd, img, pos) ==
  IF pos > Len(img) THEN [v |-> [k |-> "junk"], pos |-> 0]
  ELSE LET c == img[pos] IN
  CASE fd.vec ->
         IF c.t = "w" /\ c.v = <<C!VectorId[2], C!VectorId[1]>> /\ pos + 1 <= Len(img) /\ img[pos + 1].t = "w"
           THEN LET n == img[pos + 1].v[1] IN
                IF pos + 1 + n <= Len(img) /\ \A m \in 1..n : img[pos + 1 + m].t = "w"
                  THEN [v |-> [k |-> "vec", e |-> [m \in 1..n |-> [k |-> "int", c |-> Class32(img[pos + 1 + m].v)]]],
                        pos |-> pos + 2 + n]
                  ELSE [v |-> [k |-> "junk"], pos |-> 0]
           ELSE [v |-> [k |-> "junk"], pos |-> 0]
    [] fd.kind = "int" -> IF c.t = "w" THEN [v |-> [k |-> "int", c |-> Class32(c.v)], pos |-> pos + 1]
                          ELSE [v |-> [k |-> "junk"], pos |-> 0]
    [] fd.kind = "long" -> IF c.t = "q" THEN [v |-> [k |-> "long", c |-> Class64(c.v)], pos |-> pos + 1]
                           ELSE [v |-> [k |-> "junk"], pos |-> 0]
    [] fd.kind = "string" -> IF c.t = "b" /\ pos + 2 <= Len(img) /\ img[pos + 1].t = "p" /\ img[pos + 2].t = "z"
                                  /\ ((Len(c.v) = 1 /\ c.v[1] = img[pos + 1].len) \/ (Len(c.v) = 4 /\ c.v[1] = 254))
                               THEN [v |-> [k |-> "str", len |-> img[pos + 1].len, tag |-> img[pos + 1].tag], pos |-> pos + 3]
                               ELSE [v |-> [k |-> "junk"], pos |-> 0]
    [] fd.kind = "bool" -> IF c.t = "w" /\ c.v \in {<<C!BoolTrueId[2], C!BoolTrueId[1]>>, <<C!BoolFalseId[2], C!BoolFalseId[1]>>}
                             THEN [v |-> [k |-> "bool", b |-> c.v = <<C!BoolTrueId[2], C!BoolTrueId[1]>>], pos |-> pos + 1]
                             ELSE [v |-> [k |-> "junk"], pos |-> 0]
    [] fd.kind = "int128" -> IF c.t = "be" /\ c.len = 16 THEN [v |-> [k |-> "big", w |-> 16, lz |-> c.lz, tag |-> c.tag], pos |-> pos + 1]
                             ELSE [v |-> [k |-> "junk"], pos |-> 0]
    [] OTHER -> [v |-> [k |-> "junk"], pos |-> 0]

BitSet(w, b) == IF b < 16 THEN (w[1] \div (2 ^ b)) % 2 = 1 ELSE (w[2] \div (2 ^ (b - 16))) % 2 = 1
RECURSIVE DecFrom(_, _, _, _, _)
\* decodes layout positions j.. from chunk pos; flags = the flags word read so far (<<0,0>> before it)
DecFrom(L, img, j, pos, flags) ==
  IF j > Len(L) THEN (IF pos = Len(img) + 1 THEN <<>> ELSE <<[k |-> "junk"]>>)
  ELSE IF pos = 0 THEN <<[k |-> "junk"]>>
  ELSE IF L[j].kind = "flags" THEN (IF pos <= Len(img) /\ img[pos].t = "w" THEN DecFrom(L, img, j + 1, pos + 1, img[pos].v) ELSE <<[k |-> "junk"]>>)
  ELSE IF L[j].kind = "true" THEN <<[k |-> "true", b |-> BitSet(flags, L[j].bit)]>> \o DecFrom(L, img, j + 1, pos, flags)
  ELSE IF L[j].bit >= 0 /\ ~BitSet(flags, L[j].bit) THEN <<[k |-> "absent"]>> \o DecFrom(L, img, j + 1, pos, flags)
  ELSE LET r == ReadField(L[j], img, pos) IN <<r.v>> \o DecFrom(L, img, j + 1, r.pos, flags)
Dec(L, img) == IF Len(img) >= 1 /\ img[1].t = "w" THEN DecFrom(L, img, 1, 2, <<0, 0>>) ELSE <<[k |-> "junk"]>>

\* a conditional field that is present with the zero value of its kind counts as absent when it is
\* alone; inside a group the group rule decides.  Normal values: uniform groups, a `true` flag agrees
\* with its group, a present scalar group has a non-zero member.
IsZero(fv) == \/ (fv.k = "int" /\ fv.c = "zero") \/ (fv.k = "long" /\ fv.c = "zero") \/ (fv.k = "str" /\ fv.len = 0)
              \/ (fv.k = "bool" /\ ~fv.b)
D == DataOf(layout)
GroupOf(b) == {j \in 1..Len(D) : D[j].bit = b}
PresentIn(j) == C!Present(D[j], value[j])
Normal == \A b \in {D[j].bit : j \in 1..Len(D)} \ {-1} :
            /\ \A x, y \in GroupOf(b) : PresentIn(x) = PresentIn(y)                   \* uniform
            /\ (\E x \in GroupOf(b) : PresentIn(x)) =>
                  \E x \in GroupOf(b) : D[x].kind = "true" \/ ~IsZero(value[x])       \* some member non-zero

WordAligned == C!ImageLen(Img) % 4 = 0
FlagsMatch == \A j \in 1..Len(layout) : layout[j].kind = "flags" =>
                \E p \in 1..Len(Img) : Img[p].t = "w" /\ Img[p].v = C!FlagWord(C!FlagBits(layout, value))
RoundTrip == Normal => Dec(layout, Img) = value
\* the reason for the group rule: if a present group drops a member the decoder cannot get the value back
GroupRule == (~Normal /\ \E b \in {D[j].bit : j \in 1..Len(D)} \ {-1} : \E x, y \in GroupOf(b) : D[x].kind # "true" /\ D[y].kind # "true" /\ PresentIn(x) /\ ~PresentIn(y))
               => Dec(layout, Img) # value
=============================================================================
