---------------------------- MODULE Lifecycle ----------------------------
(* C12 (resume half), with C06 / C11 / C17 at their seams - the life of a client across restarts.

   One application, one session store, one server (two data centres sharing the key store).  The store is empty
   (the first start makes a key exchange and stores key, salt and address) or holds a session from the beginning.
   While the application runs it makes calls; the server rotates its salt (the next call is rejected, the client
   adopts the new salt and writes key, salt and its *current* address to the store); the server may answer a call
   with PHONE_MIGRATE_2 (the client moves to the second data centre; as coded the store learns the new address only
   with the next salt it writes); the application stops and starts again on the same store.

   Properties
     OneKey            a session in the store is never replaced by a new key exchange
     ResumeFromStore   a start on a non-empty store takes key, salt and address from it       (action property)
     StoreHoldsKey     while running, the key in use is the stored one
     SaltStored        after a call completed, the salt in use is the stored one
   Deviations (each breaks one): HandshakeOnResume, IgnoreStoredAddress, IgnoreStoredSalt, SaltNotStored.

   The same module generates the lifecycles the harness replays (`hist`): Start / Call / Rotate / Migrate / Stop. *)
EXTENDS Integers, Sequences, FiniteSets, TLC

CONSTANTS MaxRot, MaxStarts, MaxCalls, Dev

VARIABLES up, ckey, csalt, cdc,      \* the running application: key, salt and data centre in use
          store,                     \* [k, salt, dc]; k = 0: empty
          srvSalt, nkeys,            \* server: current salt, number of keys it has agreed on
          starts, calls, hist
vars == <<up, ckey, csalt, cdc, store, srvSalt, nkeys, starts, calls, hist>>

Empty == [k |-> 0, salt |-> 0, dc |-> 1]
Init == /\ up = FALSE /\ ckey = 0 /\ csalt = 0 /\ cdc = 1
        /\ \/ store = Empty /\ nkeys = 0                              \* first start ever
           \/ store = [k |-> 1, salt |-> 0, dc |-> 1] /\ nkeys = 1    \* a session is already stored
        /\ srvSalt = 0 /\ starts = 0 /\ calls = 0
        /\ hist = <<[a |-> "Init", prefilled |-> store.k # 0]>>

Start ==
  /\ ~up /\ starts < MaxStarts /\ up' = TRUE /\ starts' = starts + 1
  /\ IF store.k = 0 \/ "HandshakeOnResume" \in Dev
       THEN \* key exchange: a new key, the server's current salt, the configured data centre; all stored
            /\ nkeys' = nkeys + 1 /\ ckey' = nkeys + 1 /\ csalt' = srvSalt /\ cdc' = 1
            /\ store' = [k |-> nkeys + 1, salt |-> srvSalt, dc |-> 1]
       ELSE /\ ckey' = store.k
            /\ csalt' = IF "IgnoreStoredSalt" \in Dev THEN 0 ELSE store.salt
            /\ cdc' = IF "IgnoreStoredAddress" \in Dev THEN 1 ELSE store.dc
            /\ UNCHANGED <<store, nkeys>>
  /\ hist' = Append(hist, [a |-> "Start"])
  /\ UNCHANGED <<srvSalt, calls>>

\* a call; when the salt in use is not the server's, the call is rejected once, the salt adopted and stored
Call ==
  /\ up /\ calls < MaxCalls /\ calls' = calls + 1
  /\ IF csalt = srvSalt THEN UNCHANGED <<csalt, store>>
     ELSE /\ csalt' = srvSalt
          /\ store' = IF "SaltNotStored" \in Dev THEN store ELSE [k |-> ckey, salt |-> srvSalt, dc |-> cdc]
  /\ hist' = Append(hist, [a |-> "Call"])
  /\ UNCHANGED <<up, ckey, cdc, srvSalt, nkeys, starts>>

Rotate == /\ srvSalt < MaxRot /\ srvSalt' = srvSalt + 1
          /\ hist' = Append(hist, [a |-> "Rotate"])
          /\ UNCHANGED <<up, ckey, csalt, cdc, store, nkeys, starts, calls>>

\* PHONE_MIGRATE_2 on a call made at the first data centre: the client moves; the store is not written (as coded)
Migrate == /\ up /\ cdc = 1 /\ calls < MaxCalls /\ calls' = calls + 1 /\ csalt = srvSalt
           /\ cdc' = 2
           /\ hist' = Append(hist, [a |-> "Migrate"])
           /\ UNCHANGED <<up, ckey, csalt, store, srvSalt, nkeys, starts>>

Stop == /\ up /\ up' = FALSE
        /\ hist' = Append(hist, [a |-> "Stop"])
        /\ UNCHANGED <<ckey, csalt, cdc, store, srvSalt, nkeys, starts, calls>>

Next == Start \/ Call \/ Rotate \/ Migrate \/ Stop
Spec == Init /\ [][Next]_vars

OneKey == nkeys <= 1
StoreHoldsKey == up => store.k = ckey
\* the salt in use differs from the stored one only while a rotation has not been noticed yet
SaltStored == up /\ csalt = srvSalt => store.salt = csalt \/ store.salt = srvSalt
ResumeFromStore == [][(~up /\ up' /\ store.k # 0) => (ckey' = store.k /\ csalt' = store.salt /\ cdc' = store.dc /\ store' = store)]_vars
=============================================================================
