SPECIFICATION Spec
CONSTANTS MaxLen = 3
 Dev = {"EnumWhereObjectPanics"}
INVARIANTS Total AllocBounded BoundedSteps ValueMeansComplete
