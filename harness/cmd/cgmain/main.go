// Command cgmain exists only to give the call-graph extraction (C19) its roots: the public entry
// points under which the client generates secrets.
package main

import (
	"github.com/xelaj/mtproto"
	"github.com/xelaj/mtproto/telegram"
)

func main() {
	m, _ := mtproto.NewMTProto(mtproto.Config{})
	_ = m.CreateConnection()
	_, _ = telegram.GetInputCheckPassword("x", nil)
}
