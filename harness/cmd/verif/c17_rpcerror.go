package main

// C17 (text part): replay of the error texts enumerated by TLC from spec/RpcErrorDef.tla into
// mtproto.RpcErrorToNative / TryExpandError; plus a sweep over the error catalogue extracted
// from errors.go of the working tree with go/ast (no hook).

import (
	"encoding/json"
	"flag"
	"fmt"
	"go/ast"
	"go/parser"
	"go/token"
	"math/rand"
	"path/filepath"
	"strconv"
	"strings"

	"github.com/xelaj/mtproto"
	"github.com/xelaj/mtproto/internal/mtproto/objects"
)

type rpcCase struct {
	Text   []string `json:"text"`
	Expect struct {
		Kind  string   `json:"kind"`
		Msg   []string `json:"msg"`
		Param string   `json:"param"`
		Row   int      `json:"row"`
	} `json:"expect"`
}

func rpcCatalogue(repo string) map[string]string {
	fset := token.NewFileSet()
	f, err := parser.ParseFile(fset, filepath.Join(repo, "errors.go"), nil, 0)
	must(err)
	out := map[string]string{}
	ast.Inspect(f, func(n ast.Node) bool {
		vs, ok := n.(*ast.ValueSpec)
		if !ok || len(vs.Names) != 1 || vs.Names[0].Name != "errorMessages" || len(vs.Values) != 1 {
			return true
		}
		cl, ok := vs.Values[0].(*ast.CompositeLit)
		if !ok {
			return true
		}
		for _, e := range cl.Elts {
			kv, ok := e.(*ast.KeyValueExpr)
			if !ok {
				continue
			}
			k, ok1 := kv.Key.(*ast.BasicLit)
			v, ok2 := kv.Value.(*ast.BasicLit)
			if ok1 && ok2 {
				ks, _ := strconv.Unquote(k.Value)
				vs, _ := strconv.Unquote(v.Value)
				out[ks] = vs
			}
		}
		return false
	})
	return out
}

// renders a token; for numeric classes also returns the value
func rpcToken(tok string, rng *rand.Rand) (string, int, bool) {
	small := 1 + rng.Intn(86400)
	switch tok {
	case "#small":
		return strconv.Itoa(small), small, true
	case "#zero":
		return "0", 0, true
	case "#int32max":
		return "2147483647", 2147483647, true
	case "#int64max":
		return "9223372036854775807", 9223372036854775807, true
	case "#leadzero":
		return strings.Repeat("0", 1+rng.Intn(3)) + strconv.Itoa(small), small, true
	case "#neg":
		return "-" + strconv.Itoa(small), 0, false
	case "#plus":
		return "+" + strconv.Itoa(small), 0, false
	case "#huge":
		return []string{"9223372036854775808", "18446744073709551616", "123456789012345678901234567890"}[rng.Intn(3)], 0, false
	case "#empty":
		return "", 0, false
	case "#alpha":
		return []string{"abc", "x", "NaN", "ten"}[rng.Intn(4)], 0, false
	case "#mixed":
		return []string{"5s", "1.5", "0x10", "1e3", "5_", "٣"}[rng.Intn(6)], 0, false
	case "#pct":
		return []string{"%d", "%s", "%v", "%!", "5%", "%5d"}[rng.Intn(6)], 0, false
	case "#space":
		return []string{" 5", "5 ", "\t5", "5\n"}[rng.Intn(4)], 0, false
	case "FOO":
		switch rng.Intn(3) {
		case 0:
			return "ZQ" + strings.ToUpper(strconv.FormatInt(int64(rng.Intn(1<<20)), 36)), 0, false
		case 1:
			return "ZQ%d%s", 0, false
		}
		return "ZQ%" + strconv.Itoa(rng.Intn(9)) + "v", 0, false
	}
	return tok, 0, false
}

type rpcOutcome struct {
	Kind    string `json:"kind"`
	Code    int    `json:"code"`
	Message string `json:"message"`
	Desc    string `json:"desc"`
	Param   string `json:"param"` // "nil" or decimal or %T
	Err     string `json:"err,omitempty"`
	ErrStr  string `json:"errstr,omitempty"` // what Error() prints
}

func rpcRun(code int32, text string) (out rpcOutcome) {
	defer func() {
		if r := recover(); r != nil {
			out = rpcOutcome{Kind: "panic", Err: fmt.Sprint(r)}
		}
	}()
	err := mtproto.RpcErrorToNative(&objects.RpcError{ErrorCode: code, ErrorMessage: text})
	e, ok := err.(*mtproto.ErrResponseCode)
	if !ok {
		return rpcOutcome{Kind: "other", Err: fmt.Sprintf("%T", err)}
	}
	out = rpcOutcome{Kind: "ok", Code: e.Code, Message: e.Message, Desc: e.Description, ErrStr: e.Error()}
	switch p := e.AdditionalInfo.(type) {
	case nil:
		out.Param = "nil"
	case int:
		out.Param = strconv.Itoa(p)
	default:
		out.Param = fmt.Sprintf("%T", p)
	}
	name, add := mtproto.TryExpandError(text)
	if name != e.Message || fmt.Sprint(add) != fmt.Sprint(e.AdditionalInfo) {
		out.Kind = "inconsistent"
		out.Err = fmt.Sprintf("TryExpandError gives (%q, %v)", name, add)
	}
	return out
}

func init() {
	commands["rpcerror"] = func(args []string) {
		fs := flag.NewFlagSet("rpcerror", flag.ExitOnError)
		cases := fs.String("cases", "", "")
		seed := fs.Int64("seed", 1, "")
		conc := fs.Int("concretisations", 3, "")
		repo := fs.String("repo", "/repo", "")
		fs.Parse(args)
		rng := rand.New(rand.NewSource(*seed))
		cat := rpcCatalogue(*repo)
		rep := NewReport()
		distinct := map[string]bool{}
		codes := []int32{303, 400, 401, 403, 406, 420, 500, 0, -1, -503, 2147483647, -2147483648}
		must(readNDJSON(*cases, func(raw json.RawMessage) error {
			var c rpcCase
			if err := json.Unmarshal(raw, &c); err != nil {
				return err
			}
			for k := 0; k < *conc; k++ {
				parts := make([]string, len(c.Text))
				vals := map[string]int{}
				for i, t := range c.Text {
					s, v, isnum := rpcToken(t, rng)
					parts[i] = s
					if isnum {
						vals[t] = v
					}
				}
				text := strings.Join(parts, "_")
				code := codes[rng.Intn(len(codes))]
				got := rpcRun(code, text)
				rep.Evaluations++
				distinct[text] = true
				item := map[string]interface{}{"text": text, "code": code, "tokens": c.Text, "expect": c.Expect, "got": got}
				rep.Sample(item)
				cls := fmt.Sprintf("expect=%s:tokens=%s", c.Expect.Kind, strings.Join(c.Text, "_"))
				if got.Kind != "ok" {
					rep.Disagree(got.Kind+":"+cls, fmt.Sprintf("RpcErrorToNative(%d, %q): %s %s", code, text, got.Kind, got.Err), item)
					continue
				}
				if got.Code != int(code) {
					rep.Disagree("code:"+cls, fmt.Sprintf("RpcErrorToNative(%d, %q).Code = %d", code, text, got.Code), item)
					continue
				}
				// the server's text is data: it is never used as a format (fmt marks a misused verb with "%!")
				if !strings.Contains(text, "%!") && (strings.Contains(got.Desc, "%!") || strings.Contains(got.ErrStr, "%!")) {
					rep.Disagree("text-used-as-format:"+cls, fmt.Sprintf("%q: description %q, Error() %q", text, got.Desc, got.ErrStr), item)
					continue
				}
				switch c.Expect.Kind {
				case "plain":
					if got.Message != text || got.Param != "nil" {
						rep.Disagree("plain-mismatch:"+cls, fmt.Sprintf("%q: got (%q, %s), specification says (text, none)", text, got.Message, got.Param), item)
					} else if d, ok := cat[text]; ok && got.Desc != d {
						rep.Disagree("description:"+cls, fmt.Sprintf("%q: description %q, catalogue says %q", text, got.Desc, d), item)
					}
				case "param":
					wantMsg := strings.Join(c.Expect.Msg, "_")
					wantVal := vals[c.Expect.Param]
					wantDesc := strings.Replace(cat[wantMsg], "%v", strconv.Itoa(wantVal), 1)
					if got.Message != wantMsg || got.Param != strconv.Itoa(wantVal) {
						rep.Disagree("param-mismatch:"+cls, fmt.Sprintf("%q: got (%q, %s), specification says (%q, %d)", text, got.Message, got.Param, wantMsg, wantVal), item)
					} else if _, ok := cat[wantMsg]; ok && got.Desc != wantDesc {
						rep.Disagree("description:"+cls, fmt.Sprintf("%q: description %q, expected %q", text, got.Desc, wantDesc), item)
					}
				case "open":
					// a structured error without a panic; a numeric parameter must occur in the text
					if got.Param != "nil" {
						n := strings.TrimLeft(got.Param, "-")
						if _, err := strconv.Atoi(got.Param); err != nil || !strings.Contains(text, n) {
							rep.Disagree("open-param:"+cls, fmt.Sprintf("%q: parameter %s does not occur in the text", text, got.Param), item)
						}
					}
					if got.Message != text && !(strings.Contains(got.Message, "_X") && len(got.Message) <= len(text)+1) {
						rep.Disagree("open-message:"+cls, fmt.Sprintf("%q: message %q is neither the text nor an X-form", text, got.Message), item)
					}
				}
			}
			return nil
		}))
		// catalogue sweep: every documented name maps to its description
		ncat := 0
		for name, desc := range cat {
			got := rpcRun(400, name)
			rep.Evaluations++
			distinct[name] = true
			ncat++
			item := map[string]interface{}{"text": name, "got": got}
			if got.Kind != "ok" {
				rep.Disagree(got.Kind+":catalogue:"+name, fmt.Sprintf("RpcErrorToNative(400, %q): %s %s", name, got.Kind, got.Err), item)
				continue
			}
			if strings.HasSuffix(name, "_X") || strings.Contains(name, "_X_") {
				continue // X-forms themselves look like parameterised texts with a non-numeric parameter: open
			}
			if got.Param != "nil" && strings.Contains(name, "_"+got.Param) {
				continue // a catalogued instance of a parameterised error (FILE_PART_0_MISSING): decided by the structured cases
			}
			if got.Message != name || got.Param != "nil" || got.Desc != desc {
				rep.Disagree("catalogue:"+name, fmt.Sprintf("%q: got (%q, %s, %q), catalogue says %q", name, got.Message, got.Param, got.Desc, desc), item)
			}
		}
		rep.Extra["catalogue_names"] = ncat
		rep.Distinct = len(distinct)
		rep.Emit()
	}
}
