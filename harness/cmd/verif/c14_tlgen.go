package main

// `verif tlgencheck`: C14.  Schemas come from TLC (spec/SchemaGen.tla, random behaviours of the
// schema-building machine) and from schemes/.  Each is rendered as .tl text and
//   - parsed with tlparser.ParseSchema (imported from the working tree): the result must be the
//     schema's own structure (names, ids, parameters in order with type, vector and flag markers,
//     result types);
//   - generated twice with the tlgen binary built from the working tree: byte-identical output;
//   - the output is placed in a scratch module with a stub Client and compiled;
//   - the generated declarations (go/ast) must be T(def): one type per constructor with CRC() = id,
//     fields in order with the right Go kind, `tl:"flag:N[,encoded_in_bitflags]"` tags, FlagIndex() =
//     position of the flags word, enum constants for parameterless types, all registered in init.

import (
	"bytes"
	"encoding/json"
	"flag"
	"fmt"
	"go/ast"
	"go/parser"
	"go/token"
	"io/ioutil"
	"os"
	"os/exec"
	"path/filepath"
	"regexp"
	"strconv"
	"strings"

	"github.com/xelaj/mtproto/internal/cmd/tlgen/gen"
	"github.com/xelaj/mtproto/internal/cmd/tlgen/tlparser"
)

type sgParam struct {
	Name string `json:"name"`
	Base string `json:"base"`
	Vec  bool   `json:"vec"`
	Bit  int    `json:"bit"`
}

type sgDef struct {
	Section   string    `json:"section"`
	Name      string    `json:"name"`
	ID        []int     `json:"id"`
	Params    []sgParam `json:"params"`
	Result    string    `json:"result"`
	ResultVec bool      `json:"resultvec"`
}

// what spec/SchemaGen.tla (Xlate) says the generated package declares for a definition
type sgExpectField struct {
	Name  string `json:"name"`
	Kind  string `json:"kind"` // int32 int64 float64 string []byte bool ref
	Slice bool   `json:"slice"`
	Tag   string `json:"tag"`
}

type sgExpect struct {
	Name      string          `json:"name"`
	ID        []int           `json:"id"`
	Class     string          `json:"class"` // enum | struct
	Fields    []sgExpectField `json:"fields"`
	FlagIndex int             `json:"flagindex"`
}

type sgSchema struct {
	Defs   []sgDef    `json:"defs"`
	Expect []sgExpect `json:"expect"`
}

func (d *sgDef) crc() uint32 { return uint32(d.ID[0])<<16 | uint32(d.ID[1]) }

func sgType(p sgParam) string {
	t := p.Base
	if p.Vec {
		t = "Vector<" + t + ">"
	}
	if p.Bit >= 0 {
		t = fmt.Sprintf("flags.%d?%s", p.Bit, t)
	}
	return t
}

func sgRender(defs []sgDef, comments bool) string {
	var b strings.Builder
	b.WriteString("// schema generated for the verification of tlgen\n// second plain comment line\n//\n")
	fn := false
	for i, d := range defs {
		if d.Section == "functions" && !fn {
			b.WriteString("\n---functions---\n\n")
			fn = true
		}
		if comments {
			switch i % 4 {
			case 0:
				fmt.Fprintf(&b, "// @type %s description of the type\n// @constructor description of %s\n", d.Result, d.Name)
				for _, p := range d.Params {
					fmt.Fprintf(&b, "// @param %s what %s is\n", p.Name, p.Name)
				}
			case 1:
				b.WriteString("// @constructor\n")
			case 2:
				b.WriteString("// plain comment before a definition; with punctuation = # : ?\n")
			case 3:
				// one word, not ASCII (a word is counted in characters, not in bytes)
				b.WriteString([]string{"// Сообщения\n", "//———\n", "// 🎯\n", "// naïveté\n"}[(i/4)%4])
			}
		}
		fmt.Fprintf(&b, "%s#%08x", d.Name, d.crc())
		for _, p := range d.Params {
			fmt.Fprintf(&b, " %s:%s", p.Name, sgType(p))
		}
		res := d.Result
		if d.ResultVec {
			res = "Vector<" + res + ">"
		}
		fmt.Fprintf(&b, " = %s;\n", res)
	}
	return b.String()
}

var flagTagRe2 = regexp.MustCompile(`tl:"([^"]*)"`)

type genDecls struct {
	structs   map[string][]*ast.Field // type name -> fields
	crc       map[string]uint32       // receiver type -> CRC() literal
	flagIdx   map[string]int
	enumConst map[uint32]string // value -> const name
	regObj    map[string]bool
	regEnum   map[string]bool
	methods   map[string]bool // methods on *Client
}

func exprString(e ast.Expr) string {
	switch v := e.(type) {
	case *ast.Ident:
		return v.Name
	case *ast.StarExpr:
		return "*" + exprString(v.X)
	case *ast.ArrayType:
		return "[]" + exprString(v.Elt)
	case *ast.SelectorExpr:
		return exprString(v.X) + "." + v.Sel.Name
	}
	return fmt.Sprintf("%T", e)
}

func litUint(e ast.Expr) (uint64, bool) {
	if bl, ok := e.(*ast.BasicLit); ok {
		v, err := strconv.ParseUint(bl.Value, 0, 64)
		return v, err == nil
	}
	if ce, ok := e.(*ast.CallExpr); ok && len(ce.Args) == 1 { // T(0x...)
		return litUint(ce.Args[0])
	}
	return 0, false
}

func extractDecls(dir string) (*genDecls, error) {
	fset := token.NewFileSet()
	pkgs, err := parser.ParseDir(fset, dir, func(fi os.FileInfo) bool { return strings.HasSuffix(fi.Name(), "_gen.go") }, 0)
	if err != nil {
		return nil, err
	}
	g := &genDecls{structs: map[string][]*ast.Field{}, crc: map[string]uint32{}, flagIdx: map[string]int{}, enumConst: map[uint32]string{},
		regObj: map[string]bool{}, regEnum: map[string]bool{}, methods: map[string]bool{}}
	for _, pkg := range pkgs {
		for _, f := range pkg.Files {
			for _, d := range f.Decls {
				switch dd := d.(type) {
				case *ast.GenDecl:
					for _, sp := range dd.Specs {
						switch s := sp.(type) {
						case *ast.TypeSpec:
							if st, ok := s.Type.(*ast.StructType); ok {
								var fs []*ast.Field
								for _, fl := range st.Fields.List {
									for range fl.Names {
										fs = append(fs, fl)
									}
								}
								g.structs[s.Name.Name] = fs
							}
						case *ast.ValueSpec:
							if dd.Tok == token.CONST && len(s.Names) == 1 && len(s.Values) == 1 {
								if v, ok := litUint(s.Values[0]); ok {
									g.enumConst[uint32(v)] = s.Names[0].Name
								}
							}
						}
					}
				case *ast.FuncDecl:
					if dd.Name.Name == "init" && dd.Body != nil {
						ast.Inspect(dd.Body, func(n ast.Node) bool {
							ce, ok := n.(*ast.CallExpr)
							if !ok {
								return true
							}
							name := exprString(ce.Fun)
							for _, a := range ce.Args {
								switch {
								case strings.HasSuffix(name, "RegisterObjects"):
									if u, ok := a.(*ast.UnaryExpr); ok {
										if cl, ok := u.X.(*ast.CompositeLit); ok {
											g.regObj[exprString(cl.Type)] = true
										}
									}
								case strings.HasSuffix(name, "RegisterEnums"):
									g.regEnum[exprString(a)] = true
								}
							}
							return true
						})
						continue
					}
					if dd.Recv == nil || len(dd.Recv.List) != 1 || dd.Body == nil {
						continue
					}
					recv := strings.TrimPrefix(exprString(dd.Recv.List[0].Type), "*")
					if recv == "Client" {
						g.methods[dd.Name.Name] = true
						continue
					}
					if len(dd.Body.List) == 1 {
						if rs, ok := dd.Body.List[0].(*ast.ReturnStmt); ok && len(rs.Results) == 1 {
							if v, ok := litUint(rs.Results[0]); ok {
								switch dd.Name.Name {
								case "CRC":
									g.crc[recv] = uint32(v)
								case "FlagIndex":
									g.flagIdx[recv] = int(v)
								}
							}
						}
					}
				}
			}
		}
	}
	return g, nil
}

// compares the declarations generated for one schema with the model's translation of it
func checkDecls(expect []sgExpect, g *genDecls, report func(kind, detail string)) {
	byCRC := map[uint32]string{}
	for name, c := range g.crc {
		byCRC[c] = name
	}
	want := map[uint32]bool{}
	for _, e := range expect {
		id := uint32(e.ID[0])<<16 | uint32(e.ID[1])
		want[id] = true
		if e.Class == "enum" {
			cn, ok := g.enumConst[id]
			if !ok {
				report("enum-constant-missing", fmt.Sprintf("%s#%08x: no enum constant with this value", e.Name, id))
			} else if !g.regEnum[cn] {
				report("enum-not-registered", fmt.Sprintf("%s: constant %s is not passed to RegisterEnums", e.Name, cn))
			}
			if tn, isStruct := byCRC[id]; isStruct {
				report("enum-as-struct", fmt.Sprintf("%s: parameterless constructor of an enum type generated as struct %s", e.Name, tn))
			}
			continue
		}
		tn, ok := byCRC[id]
		if !ok {
			report("constructor-missing", fmt.Sprintf("%s#%08x: no generated type returns this id from CRC()", e.Name, id))
			continue
		}
		if !g.regObj[tn] {
			report("struct-not-registered", fmt.Sprintf("%s: &%s{} is not passed to RegisterObjects", e.Name, tn))
		}
		fields := g.structs[tn]
		if len(fields) != len(e.Fields) {
			report("field-count", fmt.Sprintf("%s: %s has %d fields, the definition has %d parameters", e.Name, tn, len(fields), len(e.Fields)))
			continue
		}
		if fi, has := g.flagIdx[tn]; (e.FlagIndex >= 0) != has || (has && fi != e.FlagIndex) {
			report("flags-word-position", fmt.Sprintf("%s: FlagIndex() = %v (declared: %v), the flags word is parameter %d", e.Name, fi, has, e.FlagIndex))
		}
		for i, p := range e.Fields {
			gt := exprString(fields[i].Type)
			elem := gt
			if p.Slice {
				if !strings.HasPrefix(gt, "[]") || (gt == "[]byte" && p.Kind != "[]byte") {
					report("vector-marker", fmt.Sprintf("%s.%s: Go type %s for a vector of %s", e.Name, p.Name, gt, p.Kind))
					continue
				}
				elem = gt[2:]
			}
			scalar := map[string]bool{"int32": true, "int64": true, "float64": true, "string": true, "[]byte": true, "bool": true}
			if p.Kind == "ref" {
				if scalar[elem] || strings.HasPrefix(elem, "[]") {
					report("field-kind", fmt.Sprintf("%s.%s: Go type %s for a boxed type", e.Name, p.Name, gt))
				}
			} else if elem != p.Kind {
				report("field-kind", fmt.Sprintf("%s.%s: Go type %s, the model says %s (slice %v)", e.Name, p.Name, gt, p.Kind, p.Slice))
			}
			tag := ""
			if fields[i].Tag != nil {
				if m := flagTagRe2.FindStringSubmatch(fields[i].Tag.Value); m != nil {
					tag = m[1]
				}
			}
			if tag != p.Tag {
				report("conditional-tag", fmt.Sprintf("%s.%s: tag %q, the model says %q", e.Name, p.Name, tag, p.Tag))
			}
		}
	}
	// nothing else may carry an id
	for c, name := range byCRC {
		if !want[c] {
			report("unexpected-constructor", fmt.Sprintf("generated type %s has id %08x which no definition carries", name, c))
		}
	}
	for c, name := range g.enumConst {
		if !want[c] {
			report("unexpected-constructor", fmt.Sprintf("generated constant %s has value %08x which no definition carries", name, c))
		}
	}
}

// what the parser must extract
func checkParsed(defs []sgDef, s *tlparser.Schema, report func(kind, detail string)) {
	var objs, fns []sgDef
	for _, d := range defs {
		if d.Section == "types" {
			objs = append(objs, d)
		} else {
			fns = append(fns, d)
		}
	}
	if len(s.Objects) != len(objs) || len(s.Methods) != len(fns) {
		report("parser-count", fmt.Sprintf("parser found %d constructors and %d functions, the schema has %d and %d", len(s.Objects), len(s.Methods), len(objs), len(fns)))
		return
	}
	cmpParams := func(name string, got []tlparser.Parameter, want []sgParam) {
		if len(got) != len(want) {
			report("parser-param-count", fmt.Sprintf("%s: %d parameters parsed, %d declared", name, len(got), len(want)))
			return
		}
		for i, w := range want {
			g := got[i]
			wt := w.Base
			if wt == "#" {
				wt = "bitflags"
			}
			if g.Name != w.Name || g.Type != wt || g.IsVector != w.Vec || g.IsOptional != (w.Bit >= 0) || (w.Bit >= 0 && g.BitToTrigger != w.Bit) {
				report("parser-param", fmt.Sprintf("%s: parameter %d parsed as %+v, declared %s:%s", name, i, g, w.Name, sgType(w)))
			}
		}
	}
	for i, w := range objs {
		g := s.Objects[i]
		if g.Name != w.Name || g.CRC != w.crc() || g.Interface != w.Result {
			report("parser-constructor", fmt.Sprintf("constructor %d parsed as %s#%08x = %s, declared %s#%08x = %s", i, g.Name, g.CRC, g.Interface, w.Name, w.crc(), w.Result))
			continue
		}
		cmpParams(w.Name, g.Parameters, w.Params)
	}
	for i, w := range fns {
		g := s.Methods[i]
		if g.Name != w.Name || g.CRC != w.crc() || g.Response.Type != w.Result || g.Response.IsList != w.ResultVec {
			report("parser-function", fmt.Sprintf("function %d parsed as %s#%08x = %s (vector %v), declared %s#%08x = %s (vector %v)", i, g.Name, g.CRC, g.Response.Type, g.Response.IsList, w.Name, w.crc(), w.Result, w.ResultVec))
			continue
		}
		cmpParams(w.Name, g.Parameters, w.Params)
	}
}

const stubClient = `package telegram

import (
	"reflect"

	"github.com/xelaj/mtproto/internal/encoding/tl"
)

type Client struct{}

func (c *Client) MakeRequest(msg tl.Object) (interface{}, error) { return nil, nil }
func (c *Client) MakeRequestWithHintToDecoder(msg tl.Object, t ...reflect.Type) (interface{}, error) {
	return nil, nil
}
`

func init() {
	commands["tlgencheck"] = func(args []string) {
		fs := flag.NewFlagSet("tlgencheck", flag.ExitOnError)
		schemasPath := fs.String("schemas", "", "ndjson: one generated schema (list of definitions) per line")
		tlgen := fs.String("tlgen", "", "tlgen binary built from the working tree")
		work := fs.String("work", "", "scratch directory for the module with the generated packages")
		repo := fs.String("repo", "/repo", "")
		fs.Parse(args)
		rep := NewReport()
		must(os.MkdirAll(*work, 0700))
		must(ioutil.WriteFile(filepath.Join(*work, "go.mod"), []byte("module github.com/xelaj/mtproto/verifgen\n\ngo 1.13\n\nrequire github.com/xelaj/mtproto v0.0.0\n\nreplace github.com/xelaj/mtproto => "+*repo+"\n"), 0600))
		if b, err := ioutil.ReadFile(filepath.Join(*repo, "go.sum")); err == nil {
			ioutil.WriteFile(filepath.Join(*work, "go.sum"), b, 0600)
		}
		type job struct {
			name string
			defs []sgDef
			dir  string
		}
		var jobs []job
		n := 0
		runGen := func(name, schemaFile, outDir string) (string, bool) {
			must(os.MkdirAll(outDir, 0700))
			cmd := exec.Command(*tlgen, schemaFile, outDir)
			var stderr bytes.Buffer
			cmd.Stderr = &stderr
			cmd.Stdout = &stderr
			if err := cmd.Run(); err != nil {
				return fmt.Sprintf("%v: %s", err, truncStr(stderr.String(), 400)), false
			}
			return "", true
		}
		sameDirs := func(a, b string) string {
			fa, _ := ioutil.ReadDir(a)
			fb, _ := ioutil.ReadDir(b)
			if len(fa) != len(fb) {
				return fmt.Sprintf("%d files vs %d files", len(fa), len(fb))
			}
			for _, f := range fa {
				x, _ := ioutil.ReadFile(filepath.Join(a, f.Name()))
				y, _ := ioutil.ReadFile(filepath.Join(b, f.Name()))
				if !bytes.Equal(x, y) {
					return f.Name() + " differs"
				}
			}
			return ""
		}
		dirty := filepath.Clean(*work) + "_reused" // outside the module that is compiled
		defer os.RemoveAll(dirty)
		handle := func(name, text string, defs []sgDef, expect []sgExpect) {
			n++
			rep.Evaluations++
			info := map[string]interface{}{"schema": name, "text": truncStr(text, 1500)}
			report := func(kind, detail string) { rep.Disagree(sgSig(kind, name), name+": "+detail, info) }
			if len(rep.Samples) < 2 {
				rep.Sample(map[string]interface{}{"schema": name, "text": truncStr(text, 700)})
			}
			if defs != nil {
				var parsed *tlparser.Schema
				var perr error
				if p := recoverTo(func() { parsed, perr = tlparser.ParseSchema(text) }); p != nil {
					report("parser-panic", fmt.Sprint(p))
				} else if perr != nil {
					report("parser-rejects", perr.Error())
				} else {
					checkParsed(defs, parsed, report)
				}
			}
			sf := filepath.Join(*work, fmt.Sprintf("s%d.tl", n))
			must(ioutil.WriteFile(sf, []byte(text), 0600))
			dirA, dirB := filepath.Join(*work, fmt.Sprintf("g%d", n)), filepath.Join(*work, fmt.Sprintf("x%d_second", n))
			if msg, ok := runGen(name, sf, dirA); !ok {
				report("generator-fails", msg)
				os.RemoveAll(dirA)
				return
			}
			if msg, ok := runGen(name, sf, dirB); !ok {
				report("generator-fails", msg)
			} else if d := sameDirs(dirA, dirB); d != "" {
				report("not-reproducible", "two generations differ: "+d)
			}
			os.RemoveAll(dirB)
			// the library way: one parsed schema object handed to two generators of one process - the second generation equals the
			// first (whether the generator may normalise the object it is handed is not the statement's business: it does)
			if ps, err := tlparser.ParseSchema(text); err == nil {
				dirC, dirD := filepath.Join(*work, fmt.Sprintf("x%d_lib1", n)), filepath.Join(*work, fmt.Sprintf("x%d_lib2", n))
				genLib := func(dir string) string {
					os.MkdirAll(dir, 0700)
					var gerr error
					if p := recoverTo(func() {
						g, err := gen.NewGenerator(ps, "", dir)
						if err != nil {
							gerr = err
							return
						}
						gerr = g.Generate()
					}); p != nil {
						return fmt.Sprintf("panic: %v", p)
					}
					if gerr != nil {
						return gerr.Error()
					}
					return ""
				}
				if msg := genLib(dirC); msg != "" {
					report("generator-fails", "in-process generation from the parsed schema: "+msg)
				} else if msg := genLib(dirD); msg != "" {
					report("generator-fails", "second in-process generation from the same parsed schema: "+msg)
				} else if d := sameDirs(dirC, dirD); d != "" {
					report("not-reproducible", "two in-process generations from one parsed schema differ: "+d)
				}
				os.RemoveAll(dirC)
				os.RemoveAll(dirD)
			}
			// over the files of the previous generation (another, often larger, schema)
			if msg, ok := runGen(name, sf, dirty); !ok {
				report("generator-fails", "over the output of a previous generation: "+msg)
			} else if d := sameDirs(dirA, dirty); d != "" {
				report("not-reproducible", "generating over the output of another schema differs from generating into an empty directory: "+d)
			}
			must(ioutil.WriteFile(filepath.Join(dirA, "stub.go"), []byte(stubClient), 0600))
			jobs = append(jobs, job{name, defs, dirA})
			if defs != nil {
				g, err := extractDecls(dirA)
				if err != nil {
					report("generated-code-unparsable", err.Error())
					return
				}
				checkDecls(expect, g, report)
				nfn := 0
				for _, d := range defs {
					if d.Section == "functions" {
						nfn++
					}
				}
				if len(g.methods) != nfn {
					report("client-methods", fmt.Sprintf("%d methods on *Client generated for %d functions", len(g.methods), nfn))
				}
			}
		}
		if *schemasPath != "" {
			k := 0
			must(readNDJSON(*schemasPath, func(raw json.RawMessage) error {
				var sc sgSchema
				if err := json.Unmarshal(raw, &sc); err != nil {
					return err
				}
				k++
				handle(fmt.Sprintf("generated-%d", k), sgRender(sc.Defs, k%2 == 0), sc.Defs, sc.Expect)
				return nil
			}))
		}
		for _, f := range fs.Args() { // shipped schemas: accepted, reproducible, compiling
			b, err := ioutil.ReadFile(f)
			must(err)
			handle("shipped:"+filepath.Base(f), string(b), nil, nil)
		}
		os.RemoveAll(dirty)
		// one build for all generated packages
		cmd := exec.Command("go", "build", "./...")
		cmd.Dir = *work
		cmd.Env = append(os.Environ(), "GOFLAGS=-mod=mod", "GOPROXY=off", "GOSUMDB=off", "GOTOOLCHAIN=local")
		out, err := cmd.CombinedOutput()
		if err != nil {
			failed := map[string][]string{}
			for _, line := range strings.Split(string(out), "\n") {
				for _, j := range jobs {
					if strings.HasPrefix(line, filepath.Base(j.dir)+"/") || strings.Contains(line, "/"+filepath.Base(j.dir)+"/") {
						failed[j.name] = append(failed[j.name], line)
					}
				}
			}
			if len(failed) == 0 {
				must(fmt.Errorf("go build of the generated packages failed without naming one: %s", truncStr(string(out), 1500)))
			}
			for name, lines := range failed {
				if len(lines) > 4 {
					lines = lines[:4]
				}
				rep.Disagree(sgSig("does-not-compile", name), name+": "+strings.Join(lines, " | "), map[string]interface{}{"schema": name})
			}
		}
		rep.Distinct = rep.Evaluations
		rep.Extra["packages_compiled"] = len(jobs)
		rep.Emit()
	}
}

// shipped schemas are named in the signature, generated ones are not (their numbering is per run)
func sgSig(kind, name string) string {
	if strings.HasPrefix(name, "shipped:") {
		return "C14:" + kind + ":" + name
	}
	return "C14:" + kind
}

func truncStr(s string, n int) string {
	if len(s) > n {
		return s[:n] + "..."
	}
	return s
}
