package main

// `verif envelopeconc`: C03 / C04 / C05 under concurrency.  Sealing and opening are functions of their arguments:
// senders sealing while the receive loop opens (and several clients in one process) get what the specification says.
// The reference side is refsrv's independent key schedule and IGE.

import (
	"bytes"
	"encoding/binary"
	"flag"
	"fmt"
	"math/rand"
	"sync"

	ige "github.com/xelaj/mtproto/internal/aes_ige"
	"github.com/xelaj/mtproto/internal/mtproto/messages"
	"github.com/xelaj/mtproto/verifharness/refsrv"
)

// openC2S opens a client->server packet the way the reference server does; ok = every check passed
func openC2S(key, pkt []byte) (salt, sid, mid int64, seq int32, body []byte, ok bool) {
	if len(pkt) < 24+32 || (len(pkt)-24)%16 != 0 || !bytes.Equal(pkt[:8], refsrv.KeyID(key)) {
		return
	}
	k, iv := refsrv.Kdf(key, pkt[8:24], 0)
	dec := refsrv.IgeDecrypt(k, iv, pkt[24:])
	n := int(binary.LittleEndian.Uint32(dec[28:32]))
	if n < 0 || n > len(dec)-32 || len(dec)-32-n > 15 {
		return
	}
	if !bytes.Equal(refsrv.Sha1(dec[:32+n])[4:20], pkt[8:24]) {
		return
	}
	return int64(binary.LittleEndian.Uint64(dec[0:])), int64(binary.LittleEndian.Uint64(dec[8:])), int64(binary.LittleEndian.Uint64(dec[16:])),
		int32(binary.LittleEndian.Uint32(dec[24:])), dec[32 : 32+n], true
}

func init() {
	commands["envelopeconc"] = func(args []string) {
		fs := flag.NewFlagSet("envelopeconc", flag.ExitOnError)
		seed := fs.Int64("seed", 1, "")
		rounds := fs.Int("rounds", 4000, "operations per goroutine")
		fs.Parse(args)
		rep := NewReport()
		var mu sync.Mutex
		bad := map[string]int{}
		note := func(sig, detail string) {
			mu.Lock()
			bad[sig]++
			if bad[sig] <= 2 {
				rep.Disagree(sig, detail, map[string]interface{}{"seed": *seed})
			}
			mu.Unlock()
		}
		const ng = 8
		var wg sync.WaitGroup
		for g := 0; g < ng; g++ {
			wg.Add(1)
			go func(g int) {
				defer wg.Done()
				rng := rand.New(rand.NewSource(*seed*100 + int64(g)))
				key := randBytes(rng, 256) // every goroutine is its own client
				for k := 0; k < *rounds; k++ {
					n := []int{0, 4, 12, 16, 23, 40, 100, 1024}[rng.Intn(8)]
					body := randBytes(rng, n)
					salt, sid, mid := pick64(rng), pick64(rng), midWithMod4(rng, 0)
					switch g % 4 {
					case 0, 1: // envelope, sending side
						seq := int32(rng.Intn(1000)) * 2
						pkt, err := (&messages.Encrypted{Msg: body, MsgID: mid}).Serialize(&envInformator{key: key, salt: salt, sid: sid, seq: seq}, false)
						s2, sid2, mid2, _, b2, ok := openC2S(key, pkt)
						if err != nil || !ok || s2 != salt || sid2 != sid || mid2 != mid || !bytes.Equal(b2, body) {
							note("C03:concurrent:c2s", fmt.Sprintf("a packet sealed while %d other goroutines seal and open is not what a conformant server opens to its fields (err=%v opened=%v)", ng-1, err, ok))
						}
					case 2: // envelope, receiving side
						smid := midWithMod4(rng, 1)
						pkt := refsrv.Seal(key, salt, sid, smid, 1, body, 0x41)
						m, err := messages.DeserializeEncrypted(pkt, key)
						if err != nil || m.Salt != salt || m.SessionID != sid || m.MsgID != smid || !bytes.Equal(m.Msg, body) {
							note("C03:concurrent:s2c", fmt.Sprintf("a conformant server packet opened while %d other goroutines seal and open: err=%v", ng-1, err))
						}
					case 3: // message-level IGE wrapper against the reference key schedule
						if n == 0 {
							continue
						}
						ct, err := ige.Encrypt(body, key)
						k2, iv2 := refsrv.Kdf(key, ige.MessageKey(body), 0)
						pt := refsrv.IgeDecrypt(k2, iv2, ct)
						if err != nil || len(pt) < n || !bytes.Equal(pt[:n], body) {
							note("C05:concurrent:msgwrap", fmt.Sprintf("Encrypt of %d bytes while %d other goroutines encrypt and decrypt does not decrypt to the message under the specified key schedule (err=%v)", n, ng-1, err))
						}
					}
					mu.Lock()
					rep.Evaluations++
					mu.Unlock()
				}
			}(g)
		}
		wg.Wait()
		rep.Distinct = ng
		for k, v := range bad {
			rep.SigCounts[k] = v
		}
		rep.Emit()
	}
}
