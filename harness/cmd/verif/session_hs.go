package main

// Key-exchange scenarios (C06 / C07): the child owns both sides, so every value-dependent corner
// can be forced: the server's draws through refsrv.HS, the client's through the verif hooks
// (hs.nonce, hs.new_nonce gates and the DH exponent draw).

import (
	"crypto/sha1"
	"fmt"
	"math/big"
	mrand "math/rand"

	"github.com/xelaj/mtproto/internal/encoding/tl"
	imath "github.com/xelaj/mtproto/internal/math"
	"github.com/xelaj/mtproto/verifharness/refsrv"
)

type hsConfig struct {
	Corner string      `json:"corner,omitempty"` // nonce|server_nonce|new_nonce|hash1|rsa|g_a|g_b|g_ab|pq_big|pq_small|""
	LZ     int         `json:"lz,omitempty"`     // number of leading zero bytes to force
	Lie    *refsrv.Lie `json:"lie,omitempty"`
	Retry  bool        `json:"retry,omitempty"` // after an abandoned exchange, connect the same client object again (server conformant by then)
	Lie2   *refsrv.Lie `json:"lie2,omitempty"`  // ... unless it lies again, in its own way, during the second attempt
}

func leadingZeros(b []byte, width int) int {
	b = refsrv.LeftPad(b, width)
	n := 0
	for n < len(b) && b[n] == 0 {
		n++
	}
	return n
}

func randNonZeroLead(rng *mrand.Rand, n int) []byte {
	b := make([]byte, n)
	rng.Read(b)
	if b[0] == 0 {
		b[0] = 0x5a
	}
	return b
}

func withLZ(rng *mrand.Rand, n, lz int) []byte {
	b := randNonZeroLead(rng, n)
	for i := 0; i < lz; i++ {
		b[i] = 0
	}
	if b[lz] == 0 {
		b[lz] = 0x3c
	}
	return b
}

// pqInnerPlain is the 255-byte block the client RSA-encrypts: SHA1(data) ++ data ++ zero padding
func pqInnerPlain(pq, p, q *big.Int, nonce, srvNonce, newNonce []byte) []byte {
	var w refsrv.W
	w.U32(refsrv.CrcPQInnerData).Str(pq.Bytes()).Str(p.Bytes()).Str(q.Bytes()).Raw(nonce).Raw(srvNonce).Raw(newNonce)
	h := sha1.Sum(w.Bytes())
	out := make([]byte, 255)
	copy(out, append(h[:], w.Bytes()...))
	return out
}

// installHandshake prepares server and client hooks for the scenario's corner; returns a
// description of the forced values for the log.
func (r *runner) installHandshake(h *hsConfig) ev {
	rng := r.rng
	g := big.NewInt(3)
	small := func() *big.Int { return new(big.Int).SetBytes(randNonZeroLead(rng, 8)) } // 64-bit exponents: fast search
	nonce := randNonZeroLead(rng, 16)
	srvNonce := randNonZeroLead(rng, 16)
	newNonce := randNonZeroLead(rng, 32)
	a, b := small(), small()
	p, _ := new(big.Int).SetString("1229739323", 10)
	q, _ := new(big.Int).SetString("1402015859", 10)
	switch h.Corner {
	case "pq_big": // two largest primes below 2^32: pq just below 2^64
		p.SetUint64(4294967279)
		q.SetUint64(4294967291)
	case "pq_mid": // pq above 2^63
		p.SetUint64(3037000493)
		q.SetUint64(4294967291)
	case "pq_small":
		p.SetUint64(3)
		q.SetUint64(5)
	case "pq_62": // two primes of about 31.5 bits: pq between 2^62 and 2^63 - 1, the top of what the protocol allows
		p.SetUint64(3037000453)
		q.SetUint64(3037000493)
	case "pq_63": // the two largest primes whose product is still below 2^63
		p.SetUint64(3037000493)
		q.SetUint64(3037000499)
	case "gb_tiny": // the client draws a tiny exponent: g_b = 3^5
		b.SetInt64(5)
	}
	pq := new(big.Int).Mul(p, q)
	desc := ev{"corner": h.Corner, "lz": h.LZ}
	want := h.LZ
	tries := 0
	switch h.Corner {
	case "nonce":
		nonce = withLZ(rng, 16, want)
	case "server_nonce":
		srvNonce = withLZ(rng, 16, want)
	case "new_nonce":
		newNonce = withLZ(rng, 32, want)
	case "g_a":
		for ; leadingZeros(new(big.Int).Exp(g, a, refsrv.DHPrime).Bytes(), 256) != want; tries++ {
			a = small()
		}
	case "g_b":
		for ; leadingZeros(new(big.Int).Exp(g, b, refsrv.DHPrime).Bytes(), 256) != want; tries++ {
			b = small()
		}
	case "g_ab":
		ga := new(big.Int).Exp(g, a, refsrv.DHPrime)
		for ; leadingZeros(new(big.Int).Exp(ga, b, refsrv.DHPrime).Bytes(), 256) != want; tries++ {
			b = small()
		}
	case "hash1":
		key := refsrv.LeftPad(new(big.Int).Exp(new(big.Int).Exp(g, a, refsrv.DHPrime), b, refsrv.DHPrime).Bytes(), 256)
		aux := refsrv.Sha1(key)[:8]
		for ; leadingZeros(refsrv.Sha1(newNonce, []byte{1}, aux)[4:20], 16) != want; tries++ {
			newNonce = randNonZeroLead(rng, 32)
		}
	case "rsa":
		e := big.NewInt(int64(r.priv.PublicKey.E))
		for ; ; tries++ {
			m := new(big.Int).SetBytes(pqInnerPlain(pq, p, q, nonce, srvNonce, newNonce))
			if leadingZeros(new(big.Int).Exp(m, e, r.priv.PublicKey.N).Bytes(), 256) == want {
				break
			}
			newNonce = randNonZeroLead(rng, 32)
		}
	}
	desc["tries"] = tries
	desc["nonce"], desc["server_nonce"], desc["new_nonce"] = fmt.Sprintf("%x", nonce), fmt.Sprintf("%x", srvNonce), fmt.Sprintf("%x", newNonce)
	desc["a"], desc["b"] = a.Text(16), b.Text(16)
	forced := h.Corner != "" || h.Lie != nil
	if forced {
		r.srv.HS.ServerNonce = func() []byte { return srvNonce }
		r.srv.HS.A = func() *big.Int { return a }
		r.srv.HS.PQ = func() (*big.Int, *big.Int) { return p, q }
		r.hsGate = func(point string, args ...interface{}) {
			switch point {
			case "hs.nonce":
				if v, ok := args[0].(*tl.Int128); ok {
					v.Int.SetBytes(nonce)
				}
			case "hs.new_nonce":
				if v, ok := args[0].(*tl.Int256); ok {
					v.Int.SetBytes(newNonce)
				}
			}
		}
		imath.VerifDraw = func(name string, v *big.Int) {
			if name == "dh.b" {
				v.Set(b)
			}
		}
	} else {
		imath.VerifDraw = nil
	}
	r.srv.HS.Lie = h.Lie
	r.srv.HS.PadByte = byte(rng.Intn(256))
	return desc
}

// clearHandshakeForcing: from now on both sides draw their own values and the server is conformant
func (r *runner) clearHandshakeForcing() {
	r.srv.HS.Lie, r.srv.HS.ServerNonce, r.srv.HS.A, r.srv.HS.PQ = nil, nil, nil, nil
	if r.sc.HS != nil {
		r.srv.HS.Lie = r.sc.HS.Lie2
	}
	r.hsGate = nil
	imath.VerifDraw = nil
}
