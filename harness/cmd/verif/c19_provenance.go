package main

// C19 (dynamic cross-check of what the call-graph model predicts): values the model says come from
// the OS source must not repeat after identical math/rand seeding, nor between two key exchanges
// in one process, nor between a failed attempt and its retry on the same client object.

import (
	"bytes"
	"crypto/rand"
	"flag"
	"fmt"
	mrand "math/rand"
	"sync"

	"github.com/xelaj/mtproto"
	"github.com/xelaj/mtproto/internal/encoding/tl"
	"github.com/xelaj/mtproto/telegram"
	"github.com/xelaj/mtproto/verifharness/refsrv"
)

func init() {
	commands["provenance"] = func(args []string) {
		fs := flag.NewFlagSet("provenance", flag.ExitOnError)
		keyPath := fs.String("key", "rsa.key", "")
		fs.Parse(args)
		rep := NewReport()
		same := func(what string, a, b []byte) {
			rep.Evaluations++
			rep.Sample(map[string]interface{}{"what": what, "first": fmt.Sprintf("%x", truncHex(a)), "second": fmt.Sprintf("%x", truncHex(b))})
			if bytes.Equal(a, b) {
				rep.Disagree("C19:repeated:"+what, fmt.Sprintf("%s repeated: %x", what, truncHex(a)), map[string]interface{}{"what": what})
			}
		}
		// (a) identical seeding of math/rand must not make a secret repeat
		mrand.Seed(7)
		n1 := tl.RandomInt128().Bytes()
		mrand.Seed(7)
		n2 := tl.RandomInt128().Bytes()
		same("nonce after identical math/rand seeding", n1, n2)
		mrand.Seed(7)
		m1 := tl.RandomInt256().Bytes()
		mrand.Seed(7)
		m2 := tl.RandomInt256().Bytes()
		same("new_nonce after identical math/rand seeding", m1, m2)
		pB := refsrv.DHPrime.Bytes()
		algo := &telegram.PasswordKdfAlgoSHA256SHA256PBKDF2HMACSHA512iter100000SHA256ModPow{Salt1: []byte("s1"), Salt2: []byte("s2"), G: 3, P: pB}
		srpB := refsrv.LeftPad([]byte{1, 2, 3, 4, 5, 6, 7, 8, 9}, 256)
		srpB[0] = 1
		getA := func() []byte {
			mrand.Seed(7)
			out, err := telegram.GetInputCheckPassword("pw", &telegram.AccountPassword{CurrentAlgo: algo, SRPB: srpB, SRPID: 1})
			must(err)
			return out.(*telegram.InputCheckPasswordSRPObj).A
		}
		same("SRP A after identical math/rand seeding", getA(), getA())
		// (b) two key exchanges in one process, (c) failed attempt and retry on one object
		priv := loadOrMakeKey(*keyPath)
		srv, err := refsrv.New(priv)
		must(err)
		var mu sync.Mutex
		seen := map[string][][]byte{}
		srv.OnSecret = func(c *refsrv.Conn, name string, val []byte) {
			mu.Lock()
			seen[name] = append(seen[name], append([]byte{}, val...))
			mu.Unlock()
		}
		newClient := func() *mtproto.MTProto {
			st := &logStore{log: &sessLog{f: devNull()}}
			m, err := mtproto.NewMTProto(mtproto.Config{SessionStorage: st, ServerHost: srv.Addr(), PublicKey: &priv.PublicKey})
			must(err)
			return m
		}
		for k := 0; k < 24; k++ { // enough exchanges for a buffered or periodically reseeded source to wrap around
			mrand.Seed(11)
			must(newClient().CreateConnection())
		}
		mu.Lock()
		for _, name := range []string{"nonce", "new_nonce", "g_b"} {
			vs := seen[name]
			// a value from the OS source has no long constant stretch (8 equal bytes: chance 2^-56 per position)
			for i, v := range vs {
				rep.Evaluations++
				run := 1
				for j := 1; j < len(v); j++ {
					if v[j] == v[j-1] {
						run++
						if run >= 8 {
							rep.Disagree("C19:constant-stretch:"+name, fmt.Sprintf("%s of key exchange %d has %d equal bytes in a row: %x", name, i+1, run, truncHex(v)), map[string]interface{}{"what": name, "exchange": i + 1})
							break
						}
					} else {
						run = 1
					}
				}
			}
			for i := 0; i < len(vs); i++ {
				for j := i + 1; j < len(vs); j++ {
					same(fmt.Sprintf("%s of key exchanges %d and %d in one process", name, i+1, j+1), vs[i], vs[j])
				}
			}
		}
		seen = map[string][][]byte{}
		mu.Unlock()
		srv.HS.Lie = &refsrv.Lie{Step: "dhParams", Field: "kind", How: "fail"}
		m := newClient()
		if err := m.CreateConnection(); err == nil {
			must(fmt.Errorf("the lying server was believed"))
		}
		srv.HS.Lie = nil
		m.Disconnect()
		must(m.CreateConnection())
		mu.Lock()
		for _, name := range []string{"nonce", "new_nonce"} {
			if vs := seen[name]; len(vs) >= 2 {
				same(name+" of a failed attempt and its retry on the same client", vs[0], vs[len(vs)-1])
			}
		}
		mu.Unlock()
		_ = rand.Reader
		rep.Distinct = rep.Evaluations
		rep.Emit()
	}
}
