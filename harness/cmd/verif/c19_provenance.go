package main

// C19 (dynamic cross-check of what the call-graph model predicts): values the model says come from
// the OS source must not repeat after identical math/rand seeding, nor between two key exchanges
// in one process, nor between a failed attempt and its retry on the same client object.

import (
	"bytes"
	"crypto/rand"
	"flag"
	"fmt"
	"math/big"
	mrand "math/rand"
	"runtime"
	"strings"
	"sync"

	"github.com/xelaj/mtproto"
	"github.com/xelaj/mtproto/internal/encoding/tl"
	"github.com/xelaj/mtproto/telegram"
	"github.com/xelaj/mtproto/verifharness/refsrv"
)

type readerFunc func(p []byte) (int, error)

func (f readerFunc) Read(p []byte) (int, error) { return f(p) }

func init() {
	commands["provenance"] = func(args []string) {
		fs := flag.NewFlagSet("provenance", flag.ExitOnError)
		keyPath := fs.String("key", "rsa.key", "")
		fs.Parse(args)
		rep := NewReport()
		same := func(what string, a, b []byte) {
			rep.Evaluations++
			rep.Sample(map[string]interface{}{"what": what, "first": fmt.Sprintf("%x", truncHex(a)), "second": fmt.Sprintf("%x", truncHex(b))})
			if bytes.Equal(a, b) {
				rep.Disagree("C19:repeated:"+what, fmt.Sprintf("%s repeated: %x", what, truncHex(a)), map[string]interface{}{"what": what})
			}
		}
		// (a) identical seeding of math/rand must not make a secret repeat
		mrand.Seed(7)
		n1 := tl.RandomInt128().Bytes()
		mrand.Seed(7)
		n2 := tl.RandomInt128().Bytes()
		same("nonce after identical math/rand seeding", n1, n2)
		mrand.Seed(7)
		m1 := tl.RandomInt256().Bytes()
		mrand.Seed(7)
		m2 := tl.RandomInt256().Bytes()
		same("new_nonce after identical math/rand seeding", m1, m2)
		pB := refsrv.DHPrime.Bytes()
		algo := &telegram.PasswordKdfAlgoSHA256SHA256PBKDF2HMACSHA512iter100000SHA256ModPow{Salt1: []byte("s1"), Salt2: []byte("s2"), G: 3, P: pB}
		srpB := refsrv.LeftPad([]byte{1, 2, 3, 4, 5, 6, 7, 8, 9}, 256)
		srpB[0] = 1
		getA := func() []byte {
			mrand.Seed(7)
			out, err := telegram.GetInputCheckPassword("pw", &telegram.AccountPassword{CurrentAlgo: algo, SRPB: srpB, SRPID: 1})
			must(err)
			return out.(*telegram.InputCheckPasswordSRPObj).A
		}
		same("SRP A after identical math/rand seeding", getA(), getA())
		// (b) two key exchanges in one process, (c) failed attempt and retry on one object
		priv := loadOrMakeKey(*keyPath)
		srv, err := refsrv.New(priv)
		must(err)
		var mu sync.Mutex
		seen := map[string][][]byte{}
		srv.OnSecret = func(c *refsrv.Conn, name string, val []byte) {
			mu.Lock()
			seen[name] = append(seen[name], append([]byte{}, val...))
			mu.Unlock()
		}
		newClient := func() *mtproto.MTProto {
			st := &logStore{log: &sessLog{f: devNull()}}
			m, err := mtproto.NewMTProto(mtproto.Config{SessionStorage: st, ServerHost: srv.Addr(), PublicKey: &priv.PublicKey})
			must(err)
			return m
		}
		for k := 0; k < 24; k++ { // enough exchanges for a buffered or periodically reseeded source to wrap around
			mrand.Seed(11)
			must(newClient().CreateConnection())
		}
		mu.Lock()
		for _, name := range []string{"nonce", "new_nonce", "g_b"} {
			vs := seen[name]
			// a value from the OS source has no long constant stretch (8 equal bytes: chance 2^-56 per position)
			for i, v := range vs {
				rep.Evaluations++
				run := 1
				for j := 1; j < len(v); j++ {
					if v[j] == v[j-1] {
						run++
						if run >= 8 {
							rep.Disagree("C19:constant-stretch:"+name, fmt.Sprintf("%s of key exchange %d has %d equal bytes in a row: %x", name, i+1, run, truncHex(v)), map[string]interface{}{"what": name, "exchange": i + 1})
							break
						}
					} else {
						run = 1
					}
				}
			}
			for i := 0; i < len(vs); i++ {
				for j := i + 1; j < len(vs); j++ {
					same(fmt.Sprintf("%s of key exchanges %d and %d in one process", name, i+1, j+1), vs[i], vs[j])
				}
			}
		}
		seen = map[string][][]byte{}
		mu.Unlock()
		degenerate := func(name string, v []byte) string {
			n := new(big.Int).SetBytes(v)
			if name == "g_b" && (n.Cmp(big.NewInt(1)) <= 0 || n.Cmp(new(big.Int).Sub(refsrv.DHPrime, big.NewInt(1))) >= 0) {
				return "g_b is 0, 1 or p-1"
			}
			if n.Sign() == 0 {
				return "all bytes zero"
			}
			run := 1
			for j := 1; j < len(v); j++ {
				if v[j] == v[j-1] {
					run++
					if run >= 8 {
						return "eight equal bytes in a row"
					}
				} else {
					run = 1
				}
			}
			return ""
		}
		// (d0) the nonce draws themselves, from many goroutines at once: each value is somebody's own, fresh draw
		{
			var wg sync.WaitGroup
			var dmu sync.Mutex
			all := map[string]int{}
			bad := 0
			for gI := 0; gI < 16; gI++ {
				wg.Add(1)
				go func(gI int) {
					defer wg.Done()
					for k := 0; k < 1500; k++ {
						var v []byte
						if k%2 == 0 {
							v = refsrv.LeftPad(tl.RandomInt128().Bytes(), 16)
						} else {
							v = refsrv.LeftPad(tl.RandomInt256().Bytes(), 32)
						}
						why := degenerate("nonce", v)
						dmu.Lock()
						if _, dup := all[string(v)]; dup && why == "" {
							why = "the same value was handed out twice"
						}
						all[string(v)] = gI
						if why != "" && bad < 3 {
							bad++
							rep.Disagree("C19:concurrent-draws", fmt.Sprintf("a nonce drawn while 15 other goroutines draw: %s (%x)", why, truncHex(v)), map[string]interface{}{"what": "nonce"})
						}
						dmu.Unlock()
					}
				}(gI)
			}
			wg.Wait()
			rep.Evaluations += len(all)
		}
		// (d) key exchanges running at the same moment: every client draws its own values
		for round := 0; round < 3; round++ {
			var wg sync.WaitGroup
			for k := 0; k < 8; k++ {
				wg.Add(1)
				go func() {
					defer wg.Done()
					defer func() { recover() }()
					newClient().CreateConnection()
				}()
			}
			wg.Wait()
		}
		mu.Lock()
		for _, name := range []string{"nonce", "new_nonce", "g_b"} {
			vs := seen[name]
			dup := map[string]int{}
			for i, v := range vs {
				rep.Evaluations++
				if why := degenerate(name, v); why != "" {
					rep.Disagree("C19:degenerate-under-concurrency:"+name, fmt.Sprintf("%s of concurrent key exchange %d: %s (%x)", name, i+1, why, truncHex(v)), map[string]interface{}{"what": name})
				}
				if j, ok := dup[string(v)]; ok {
					rep.Disagree("C19:repeated-under-concurrency:"+name, fmt.Sprintf("%s of concurrent key exchanges %d and %d is the same value %x", name, j+1, i+1, truncHex(v)), map[string]interface{}{"what": name})
				}
				dup[string(v)] = i
			}
		}
		seen = map[string][][]byte{}
		mu.Unlock()
		// (e) the OS source fails (for the client; the reference server keeps the real one): an exchange may fail loudly,
		// it may never go on with a value that did not come from the source
		realReader := rand.Reader
		type faultPlan struct{ skip, fails int }
		var plans []faultPlan
		for skip := 0; skip <= 3; skip++ { // the draws of one exchange: nonce, new_nonce, the DH exponent
			for _, fails := range []int{1, 3, 1 << 30} {
				plans = append(plans, faultPlan{skip, fails})
			}
		}
		for _, fp := range plans {
			plan := fp.fails
			skip := fp.skip
			left := plan
			var fmu sync.Mutex
			rand.Reader = readerFunc(func(p []byte) (int, error) {
				pcs := make([]uintptr, 48)
				fr := runtime.CallersFrames(pcs[:runtime.Callers(2, pcs)])
				for {
					f, more := fr.Next()
					if strings.Contains(f.Function, "verifharness/refsrv") {
						return realReader.Read(p)
					}
					if !more {
						break
					}
				}
				fmu.Lock()
				fail := false
				if skip > 0 {
					skip--
				} else {
					fail = left > 0
					left--
				}
				fmu.Unlock()
				if fail {
					return 0, fmt.Errorf("injected failure of the OS random source")
				}
				return realReader.Read(p)
			})
			var cerr error
			func() {
				defer func() {
					if p := recover(); p != nil {
						cerr = fmt.Errorf("panic: %v", p)
					}
				}()
				cerr = newClient().CreateConnection()
			}()
			rand.Reader = realReader
			mu.Lock()
			for _, name := range []string{"nonce", "new_nonce", "g_b"} {
				for _, v := range seen[name] {
					rep.Evaluations++
					if why := degenerate(name, v); why != "" {
						rep.Disagree("C19:value-without-source:"+name, fmt.Sprintf("with the OS source failing %d time(s) after "+fmt.Sprint(fp.skip)+" good read(s) the client went on with %s = %x (%s); CreateConnection: %v", plan, name, truncHex(v), why, cerr), map[string]interface{}{"what": name, "failures": plan})
					}
				}
			}
			seen = map[string][][]byte{}
			mu.Unlock()
		}
		srv.HS.Lie = &refsrv.Lie{Step: "dhParams", Field: "kind", How: "fail"}
		m := newClient()
		if err := m.CreateConnection(); err == nil {
			must(fmt.Errorf("the lying server was believed"))
		}
		srv.HS.Lie = nil
		m.Disconnect()
		must(m.CreateConnection())
		mu.Lock()
		for _, name := range []string{"nonce", "new_nonce"} {
			if vs := seen[name]; len(vs) >= 2 {
				same(name+" of a failed attempt and its retry on the same client", vs[0], vs[len(vs)-1])
			}
		}
		mu.Unlock()
		_ = rand.Reader
		rep.Distinct = rep.Evaluations
		rep.Emit()
	}
}
