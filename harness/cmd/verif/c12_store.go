package main

// C12 (store part): executes op sequences over {Store, Load, Tick, Crash} on real files through
// session.NewFromFile and records one event per op; TLC validates the log against
// spec/SessionStoreTrace.tla.  Modification times are set explicitly (os.Chtimes to an
// abstract clock), which is how a coarse file-system clock behaves.

import (
	"bytes"
	"encoding/json"
	"flag"
	"fmt"
	"io/ioutil"
	"math/rand"
	"os"
	"path/filepath"
	"time"

	"github.com/xelaj/errs"
	"github.com/xelaj/mtproto/internal/session"
)

type storeEv struct {
	Op  string `json:"op"`
	Seq int    `json:"seq,omitempty"`
	L   string `json:"l,omitempty"`
	S   string `json:"s,omitempty"`
	Res string `json:"res,omitempty"`
}

func randSession(rng *rand.Rand, keyLen int) *session.Session {
	key := make([]byte, keyLen)
	rng.Read(key)
	hash := make([]byte, []int{8, 0, 1, 20}[rng.Intn(4)])
	rng.Read(hash)
	salts := []int64{0, 1, -1, -9223372036854775808, 9223372036854775807, 0x0102030405060708, -0x0102030405060708, rng.Int63(), -rng.Int63()}
	hosts := []string{"149.154.167.50:443", "", "localhost:1", "host\"with\\quotes:443", "<script>&amp;</script>", "хост.рф:443", "名前.example:8443",
		"a{\"key\":\"x\"}", "tab\there\nnewline", "  ", "very-long-" + string(bytes.Repeat([]byte("x"), 300)), "null", "[::1]:443"}
	return &session.Session{Key: key, Hash: hash, Salt: salts[rng.Intn(len(salts))], Hostname: hosts[rng.Intn(len(hosts))]}
}

func sessEq(a, b *session.Session) bool {
	return a != nil && b != nil && bytes.Equal(a.Key, b.Key) && bytes.Equal(a.Hash, b.Hash) && a.Salt == b.Salt && a.Hostname == b.Hostname
}

type storeRun struct {
	dir    string
	path   string
	shape  string
	clock  int64
	ld     map[string]session.SessionLoader
	sess   map[string]*session.Session
	events *json.Encoder
}

var storeBase = time.Date(2021, 1, 1, 0, 0, 0, 0, time.UTC)

func (r *storeRun) stamp() {
	t := storeBase.Add(time.Duration(r.clock) * time.Second)
	os.Chtimes(r.path, t, t)
}

func (r *storeRun) doStore(l, s string) {
	res := "ok"
	func() {
		defer func() {
			if p := recover(); p != nil {
				res = "panic"
			}
		}()
		if err := r.ld[l].Store(r.sess[s]); err != nil {
			res = "error:" + err.Error()
		}
	}()
	r.stamp()
	r.events.Encode(storeEv{Op: "Store", L: l, S: s, Res: res})
}

func (r *storeRun) doLoad(l string) {
	res := ""
	func() {
		defer func() {
			if p := recover(); p != nil {
				res = "panic"
			}
		}()
		got, err := r.ld[l].Load()
		switch {
		case err != nil && errs.IsNotFound(err):
			res = "notfound"
		case err != nil:
			res = "error"
		case sessEq(got, r.sess["s1"]):
			res = "s1"
		case sessEq(got, r.sess["s2"]):
			res = "s2"
		default:
			res = "other"
		}
	}()
	r.events.Encode(storeEv{Op: "Load", L: l, Res: res})
}

// doObserve: what a loader created now (another process, a restart) reads - the content of the file
func (r *storeRun) doObserve() {
	old := r.ld["obs"]
	r.ld["obs"] = session.NewFromFile(r.path)
	res := ""
	func() {
		defer func() {
			if p := recover(); p != nil {
				res = "panic"
			}
		}()
		got, err := r.ld["obs"].Load()
		switch {
		case err != nil && errs.IsNotFound(err):
			res = "notfound"
		case err != nil:
			res = "error"
		case sessEq(got, r.sess["s1"]):
			res = "s1"
		case sessEq(got, r.sess["s2"]):
			res = "s2"
		default:
			res = "other"
		}
	}()
	if old == nil {
		delete(r.ld, "obs")
	}
	r.events.Encode(storeEv{Op: "Observe", Res: res})
}

// bytes that Store would write for s (obtained from the code itself, through a side file)
func (r *storeRun) image(s string) []byte {
	side := filepath.Join(r.dir, "side.json")
	must(session.NewFromFile(side).Store(r.sess[s]))
	b, err := ioutil.ReadFile(side)
	must(err)
	os.Remove(side)
	return b
}

func (r *storeRun) doCrash(s string, k int) {
	img := r.image(s)
	if k >= len(img) {
		k = len(img) - 1
	}
	must(ioutil.WriteFile(r.path, img[:k], 0600))
	r.stamp()
	r.events.Encode(storeEv{Op: "Crash"})
}

func init() {
	commands["store"] = func(args []string) {
		fs := flag.NewFlagSet("store", flag.ExitOnError)
		seed := fs.Int64("seed", 1, "")
		maxLen := fs.Int("maxlen", 4, "all op sequences up to this length")
		nconc := fs.Int("concretisations", 8, "session pairs")
		tracePath := fs.String("trace", "store_trace.ndjson", "")
		infoPath := fs.String("info", "store_info.ndjson", "")
		crashConc := fs.Int("crashconc", 2, "session pairs swept over every crash prefix")
		fs.Parse(args)
		rng := rand.New(rand.NewSource(*seed))
		dir, err := ioutil.TempDir(".", "storefiles")
		must(err)
		dir, _ = filepath.Abs(dir)
		defer os.RemoveAll(dir)
		must(os.MkdirAll(filepath.Join(dir, "sub"), 0700))
		must(os.Chdir(dir))
		tf, err := os.Create(*tracePath)
		must(err)
		defer tf.Close()
		inf, err := os.Create(*infoPath)
		must(err)
		defer inf.Close()
		info := json.NewEncoder(inf)
		r := &storeRun{dir: dir, events: json.NewEncoder(tf)}
		// session pairs of different serialised lengths (a shorter store after a longer one and back)
		type pair struct{ a, b *session.Session }
		var pairs []pair
		for i := 0; i < *nconc; i++ {
			la, lb := []int{256, 0, 1, 255, 300, 31}[rng.Intn(6)], []int{256, 2, 257, 64, 0}[rng.Intn(5)]
			a, b := randSession(rng, la), randSession(rng, lb)
			if sessEq(a, b) {
				b.Salt++
			}
			if i%4 == 3 { // what the client does all the time: the same key and address, another salt
				cp := *a
				cp.Salt = a.Salt + 1 + int64(rng.Intn(1000))
				b = &cp
			}
			pairs = append(pairs, pair{a, b})
		}
		shapes := []string{"absolute", "relative", "bare"}
		seqNo := 0
		begin := func(ops string, pi int) {
			seqNo++
			r.shape = shapes[seqNo%3]
			switch r.shape {
			case "absolute":
				r.path = filepath.Join(dir, "abs-session.json")
			case "relative":
				r.path = filepath.Join("sub", "session.json")
			case "bare":
				r.path = "session.json"
			}
			os.Remove(r.path)
			r.clock = 1
			r.ld = map[string]session.SessionLoader{"l1": session.NewFromFile(r.path), "l2": session.NewFromFile(r.path)}
			r.sess = map[string]*session.Session{"s1": pairs[pi].a, "s2": pairs[pi].b}
			r.events.Encode(storeEv{Op: "Reset", Seq: seqNo})
			info.Encode(map[string]interface{}{"seq": seqNo, "ops": ops, "pair": pi, "path": r.shape,
				"s1": fmt.Sprintf("key=%d bytes salt=%d host=%q", len(pairs[pi].a.Key), pairs[pi].a.Salt, pairs[pi].a.Hostname),
				"s2": fmt.Sprintf("key=%d bytes salt=%d host=%q", len(pairs[pi].b.Key), pairs[pi].b.Salt, pairs[pi].b.Hostname)})
		}
		alphabet := []string{"S11", "S12", "S21", "S22", "L1", "L2", "T", "C"}
		exec := func(sym string) {
			switch sym {
			case "S11":
				r.doStore("l1", "s1")
			case "S12":
				r.doStore("l1", "s2")
			case "S21":
				r.doStore("l2", "s1")
			case "S22":
				r.doStore("l2", "s2")
			case "L1":
				r.doLoad("l1")
			case "L2":
				r.doLoad("l2")
			case "T":
				r.clock++
				r.events.Encode(storeEv{Op: "Tick"})
			case "C":
				s := []string{"s1", "s2"}[rng.Intn(2)]
				r.doCrash(s, rng.Intn(1<<20)%(len(r.image(s))))
			}
		}
		nops := 0
		var rec func(prefix []string)
		rec = func(prefix []string) {
			if len(prefix) > 0 {
				ops := fmt.Sprint(prefix)
				begin(ops, rng.Intn(len(pairs)))
				for _, s := range prefix {
					exec(s)
					nops++
				}
				r.doObserve() // the last store wins for everybody, not only for the loaders that took part
				nops++
			}
			if len(prefix) == *maxLen {
				return
			}
			for _, a := range alphabet {
				rec(append(append([]string{}, prefix...), a))
			}
		}
		rec(nil)
		// longer named histories: a cached session, then a crash (with and without a tick), then repeated loads; stores
		// by the other loader in between; a store of the session the loader already holds after a foreign one
		for _, named := range [][]string{
			{"S11", "L1", "C", "L1", "L1"}, {"S11", "L1", "T", "C", "L1", "L1", "L1"}, {"S11", "L1", "T", "C", "L1", "L2", "L1"},
			{"S11", "L1", "T", "S22", "T", "S11", "L2", "L1"}, {"S11", "L1", "L2", "T", "S12", "L1", "L2"}, {"S11", "L1", "T", "S22", "L1", "T", "S11", "L1"},
			{"S12", "L1", "T", "S11", "T", "C", "L1", "L1", "T", "S12", "L1"}} {
			for rep := 0; rep < 3; rep++ {
				begin(fmt.Sprint(named), (rep*5+len(named))%len(pairs))
				for _, sym := range named {
					exec(sym)
					nops++
				}
				r.doObserve()
				nops++
			}
		}
		nseq := seqNo
		// every prefix length as a crash point, on a fresh file and over a cached session
		for pi := 0; pi < *crashConc && pi < len(pairs); pi++ {
			for _, s := range []string{"s1", "s2"} {
				r.sess = map[string]*session.Session{"s1": pairs[pi].a, "s2": pairs[pi].b}
				n := len(r.image(s))
				for k := 0; k < n; k++ {
					begin(fmt.Sprintf("[Crash(%s,%d) L1]", s, k), pi)
					r.doCrash(s, k)
					r.doLoad("l1")
					begin(fmt.Sprintf("[S1x L1 T Crash(%s,%d) L1 L2]", s, k), pi)
					other := map[string]string{"s1": "s2", "s2": "s1"}[s]
					r.doStore("l1", other)
					r.doLoad("l1")
					r.clock++
					r.events.Encode(storeEv{Op: "Tick"})
					r.doCrash(s, k)
					r.doLoad("l1")
					r.doLoad("l2")
					nops += 7
				}
			}
		}
		fmt.Printf("{\"sequences\": %d, \"enumerated\": %d, \"ops\": %d}\n", seqNo, nseq, nops)
	}
}
