package main

// Shared plumbing for term-instance cases (DESIGN 2.3): a case carries named terms and a
// list of checks ["eq", t1, t2]; the driver binds variables by running the real code.

import (
	"encoding/json"
	"fmt"
	"math/big"
	"math/rand"

	"github.com/xelaj/mtproto/verifharness/term"
)

type termCase struct {
	Kind   string                     `json:"kind"`
	Checks [][]json.RawMessage        `json:"checks"`
	Raw    map[string]json.RawMessage `json:"-"`
}

func parseTermCase(raw json.RawMessage) (*termCase, error) {
	c := new(termCase)
	if err := json.Unmarshal(raw, c); err != nil {
		return nil, err
	}
	if err := json.Unmarshal(raw, &c.Raw); err != nil {
		return nil, err
	}
	return c, nil
}

func (c *termCase) Int(field string) int {
	var n int
	json.Unmarshal(c.Raw[field], &n)
	return n
}

func (c *termCase) Str(field string) string {
	var s string
	json.Unmarshal(c.Raw[field], &s)
	return s
}

func (c *termCase) Term(field string) *term.Term {
	t, err := term.Parse(c.Raw[field])
	must(err)
	return t
}

// bindDefs evaluates the ordered definitions [name, term]; a definition that cannot be
// evaluated stays unbound (anything depending on it then fails).
func (c *termCase) bindDefs(env *term.Env, field string) {
	var defs [][]json.RawMessage
	json.Unmarshal(c.Raw[field], &defs)
	for _, d := range defs {
		var name string
		json.Unmarshal(d[0], &name)
		t, err := term.Parse(d[1])
		must(err)
		if v, err := env.Eval(t); err == nil {
			env.Vars[name] = v
		} else {
			delete(env.Vars, name)
		}
	}
}

// runChecks evaluates every ["eq"|"le", a, b]; returns "" or the first failure.
func (c *termCase) runChecks(env *term.Env) string {
	return runCheckList(env, c.Checks)
}

func (c *termCase) checkList(field string) [][]json.RawMessage {
	var l [][]json.RawMessage
	json.Unmarshal(c.Raw[field], &l)
	return l
}

func runCheckList(env *term.Env, checks [][]json.RawMessage) string {
	for i, ch := range checks {
		var op string
		json.Unmarshal(ch[0], &op)
		a, err := term.Parse(ch[1])
		must(err)
		b, err := term.Parse(ch[2])
		must(err)
		va, e1 := env.Eval(a)
		vb, e2 := env.Eval(b)
		if e1 != nil || e2 != nil {
			return fmt.Sprintf("check %d: cannot evaluate: %v %v", i+1, e1, e2)
		}
		if op == "le" {
			if !va.IsInt() || !vb.IsInt() || va.N.Cmp(vb.N) > 0 {
				return fmt.Sprintf("check %d: %s <= %s does not hold", i+1, va, vb)
			}
			continue
		}
		if !term.Equal(va, vb) {
			return fmt.Sprintf("check %d: real code gives %s, specification says %s", i+1, va, vb)
		}
	}
	return ""
}

// random w-byte big-endian number with exactly lz leading zero bytes (next byte non-zero)
func intWithLeadingZeros(rng *rand.Rand, w, lz int) *big.Int {
	b := make([]byte, w)
	rng.Read(b)
	for i := 0; i < lz && i < w; i++ {
		b[i] = 0
	}
	if lz < w && b[lz] == 0 {
		b[lz] = byte(1 + rng.Intn(255))
	}
	return new(big.Int).SetBytes(b)
}

func randBytes(rng *rand.Rand, n int) []byte {
	b := make([]byte, n)
	rng.Read(b)
	return b
}
