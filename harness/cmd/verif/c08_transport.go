package main

// C08: real loopback TCP runs of internal/mode + internal/transport against a segmenting peer.
// Every run is recorded (what was sent, how the stream was cut, what the code surfaced) and
// judged by TLC against spec/TransportObs.tla.

import (
	"bytes"
	"context"
	"encoding/binary"
	"encoding/json"
	"flag"
	"fmt"
	"io"
	"io/ioutil"
	"math/rand"
	"net"
	"os"
	"sort"
	"strconv"
	"sync"
	"syscall"
	"time"

	"github.com/xelaj/mtproto/internal/mode"
	"github.com/xelaj/mtproto/internal/transport"
)

type c08Got struct {
	K   string `json:"k"`             // msg | code | eof | err | panic
	Idx int    `json:"idx,omitempty"` // 1-based index of the sent message it equals, 0 = none
	V   string `json:"v,omitempty"`   // error code as decimal text
	E   string `json:"e,omitempty"`
}

type c08Run struct {
	Op    string   `json:"op"` // read | write
	ID    int      `json:"id"`
	Level string   `json:"level"` // mode | transport
	Mode  string   `json:"mode"`
	Sent  []int    `json:"sent"`  // message lengths in bytes
	Codes []string `json:"codes"` // for 4-byte frames at transport level: the code sent, decimal text ("" otherwise)
	Close string   `json:"close"` // boundary | mid
	Cuts  []int    `json:"cuts"`  // byte offsets at which the stream was split
	Got   []c08Got `json:"got"`
	// write direction
	Ann  []int `json:"ann"`
	Hdr  []int `json:"hdr"`
	Len  int   `json:"len"`
	Body bool  `json:"body"`
	// writeseq: several WriteMsg calls on one connection; message i is Sent[i] bytes of value 200+i
	Slow bool   `json:"slow"` // read run over a link slower than the reader's timeout
	Oks  []bool `json:"oks"`  // per call: accepted (no error)
	Wire []int  `json:"wire"` // every byte the peer received
}

type nullInformator struct{}

func (nullInformator) GetSessionID() int64  { return 1 }
func (nullInformator) GetSeqNo() int32      { return 0 }
func (nullInformator) GetServerSalt() int64 { return 0 }
func (nullInformator) GetAuthKey() []byte   { return make([]byte, 256) }

func c08Frame(md string, body []byte) []byte {
	var b bytes.Buffer
	if md == "abridged" {
		w := len(body) / 4
		if w < 127 {
			b.WriteByte(byte(w))
		} else {
			b.Write([]byte{0x7f, byte(w), byte(w >> 8), byte(w >> 16)})
		}
	} else {
		var h [4]byte
		binary.LittleEndian.PutUint32(h[:], uint32(len(body)))
		b.Write(h[:])
	}
	b.Write(body)
	return b.Bytes()
}

// plain-text MTProto message body of total length n (n >= 20): key id 0, odd msg id, length, payload
func c08Plain(n int, rng *rand.Rand) []byte {
	b := make([]byte, n)
	rng.Read(b)
	binary.LittleEndian.PutUint64(b[0:], 0)
	binary.LittleEndian.PutUint64(b[8:], uint64(rng.Int63())|1)
	binary.LittleEndian.PutUint32(b[16:], uint32(n-20))
	return b
}

type c08Scenario struct {
	level string
	md    string
	lens  []int
	codes []int32 // for transport level 4-byte frames
	mid   int     // >0: close after this many bytes of the last frame (strict prefix)
	cuts  []int
	slow  bool // a slow link: the reader's timeout is 300 ms and the stream stands still for 450 ms at every cut
}

func c08Execute(id int, sc c08Scenario, rng *rand.Rand, pause time.Duration) c08Run {
	run := c08Run{Op: "read", ID: id, Level: sc.level, Mode: sc.md, Sent: sc.lens, Close: "boundary", Cuts: sc.cuts, Got: []c08Got{}, Slow: sc.slow}
	if sc.slow {
		pause = 450 * time.Millisecond
	}
	if sc.mid > 0 {
		run.Close = "mid"
	}
	ln, err := net.Listen("tcp", "127.0.0.1:0")
	must(err)
	defer ln.Close()
	// build the stream
	var stream bytes.Buffer
	if sc.level == "mode" {
		if sc.md == "abridged" {
			stream.WriteByte(0xef)
		} else {
			stream.Write([]byte{0xee, 0xee, 0xee, 0xee})
		}
	}
	bodies := make([][]byte, len(sc.lens))
	ci := 0
	for i, n := range sc.lens {
		var body []byte
		code := ""
		switch {
		case sc.level == "transport" && n == 4:
			body = make([]byte, 4)
			binary.LittleEndian.PutUint32(body, uint32(sc.codes[ci]))
			code = strconv.Itoa(int(sc.codes[ci]))
			ci++
		case sc.level == "transport":
			body = c08Plain(n, rng)
		default:
			body = make([]byte, n)
			rng.Read(body)
		}
		bodies[i] = body
		run.Codes = append(run.Codes, code)
		fr := c08Frame(sc.md, body)
		if sc.mid > 0 && i == len(sc.lens)-1 {
			k := sc.mid
			if k >= len(fr) {
				k = len(fr) - 1
			}
			if k <= 0 { // no strict non-empty prefix exists: the frame is simply not written
				run.Close = "boundary"
				run.Sent = sc.lens[:i]
				break
			}
			fr = fr[:k]
		}
		stream.Write(fr)
	}
	data := stream.Bytes()
	var wg sync.WaitGroup
	wg.Add(1)
	go func() {
		defer wg.Done()
		c, err := ln.Accept()
		if err != nil {
			return
		}
		defer c.Close()
		c.(*net.TCPConn).SetNoDelay(true)
		drained := make(chan struct{})
		if sc.level == "mode" {
			// the connection is full duplex: whatever the reading side writes meanwhile is taken; the stream ends with an
			// orderly half-close, the connection is closed when the other side has closed too
			go func() { io.Copy(ioutil.Discard, c); close(drained) }()
			defer func() {
				c.(*net.TCPConn).CloseWrite()
				select {
				case <-drained:
				case <-time.After(5 * time.Second):
				}
			}()
		}
		if sc.level == "transport" {
			ann := make([]byte, map[string]int{"abridged": 1, "intermediate": 4}[sc.md])
			io.ReadFull(c, ann)
		}
		prev := 0
		for _, cut := range append(append([]int{}, sc.cuts...), len(data)) {
			if cut <= prev || cut > len(data) {
				continue
			}
			c.Write(data[prev:cut])
			prev = cut
			time.Sleep(pause)
		}
	}()
	ctx, cancel := context.WithCancel(context.Background())
	defer cancel()
	cfg := transport.TCPConnConfig{Ctx: ctx, Host: ln.Addr().String(), Timeout: 20 * time.Second}
	if sc.slow {
		cfg.Timeout = 300 * time.Millisecond
	}
	match := func(b []byte) int {
		if k := len(run.Got); k < len(bodies) && bytes.Equal(bodies[k], b) {
			return k + 1 // the message expected at this position (equal bodies, e.g. empty ones, are interchangeable)
		}
		for i, x := range bodies {
			if bytes.Equal(x, b) {
				return i + 1
			}
		}
		return 0
	}
	func() {
		defer func() {
			if p := recover(); p != nil {
				run.Got = append(run.Got, c08Got{K: "panic", E: fmt.Sprint(p)})
			}
		}()
		if sc.level == "mode" {
			conn, err := transport.NewTCP(cfg)
			must(err)
			defer conn.Close()
			m, err := mode.Detect(conn)
			if err != nil {
				run.Got = append(run.Got, c08Got{K: "err", E: "detect: " + err.Error()})
				return
			}
			if v, _ := mode.GetVariant(m); (v == mode.Abridged) != (sc.md == "abridged") {
				run.Got = append(run.Got, c08Got{K: "err", E: "detected the other mode"})
				return
			}
			if id%2 == 0 {
				// the other direction is in use at the same time (requests go out while answers come in, on one mode object)
				stopW := make(chan struct{})
				defer close(stopW)
				go func() {
					defer func() { recover() }()
					wr := rand.New(rand.NewSource(int64(id)))
					for k := 0; k < 4000; k++ {
						select {
						case <-stopW:
							return
						default:
						}
						if m.WriteMsg(randBytes(wr, 4*(1+wr.Intn(40)))) != nil {
							return
						}
						time.Sleep(200 * time.Microsecond)
					}
				}()
			}
			for len(run.Got) < len(sc.lens)+3 {
				b, err := m.ReadMsg()
				if err == io.EOF {
					run.Got = append(run.Got, c08Got{K: "eof"})
					return
				}
				if err != nil {
					run.Got = append(run.Got, c08Got{K: "err", E: err.Error()})
					return
				}
				run.Got = append(run.Got, c08Got{K: "msg", Idx: match(b)})
			}
			return
		}
		v := mode.Abridged
		if sc.md == "intermediate" {
			v = mode.Intermediate
		}
		tr, err := transport.NewTransport(nullInformator{}, cfg, v)
		must(err)
		defer tr.Close()
		for len(run.Got) < len(sc.lens)+3 {
			msg, err := tr.ReadMsg()
			if err == io.EOF {
				run.Got = append(run.Got, c08Got{K: "eof"})
				return
			}
			if ec, ok := err.(transport.ErrCode); ok {
				run.Got = append(run.Got, c08Got{K: "code", V: strconv.Itoa(int(ec))})
				continue
			}
			if err != nil {
				run.Got = append(run.Got, c08Got{K: "err", E: err.Error()})
				return
			}
			// re-assemble what was on the wire from the parsed plain-text message
			raw := make([]byte, 20+len(msg.GetMsg()))
			binary.LittleEndian.PutUint64(raw[8:], uint64(msg.GetMsgID()))
			binary.LittleEndian.PutUint32(raw[16:], uint32(len(msg.GetMsg())))
			copy(raw[20:], msg.GetMsg())
			run.Got = append(run.Got, c08Got{K: "msg", Idx: match(raw)})
		}
	}()
	cancel()
	wg.Wait()
	return run
}

// write direction: what mode.New + WriteMsg put on the wire
func c08Write(id int, md string, n int, rng *rand.Rand) c08Run {
	run := c08Run{Op: "write", ID: id, Level: "mode", Mode: md, Len: n, Sent: []int{}, Codes: []string{}, Cuts: []int{}, Got: []c08Got{}}
	ln, err := net.Listen("tcp", "127.0.0.1:0")
	must(err)
	defer ln.Close()
	var got []byte
	done := make(chan struct{})
	go func() {
		defer close(done)
		c, err := ln.Accept()
		if err != nil {
			return
		}
		defer c.Close()
		got, _ = io.ReadAll(c)
	}()
	ctx, cancel := context.WithCancel(context.Background())
	conn, err := transport.NewTCP(transport.TCPConnConfig{Ctx: ctx, Host: ln.Addr().String(), Timeout: 20 * time.Second})
	must(err)
	v := mode.Abridged
	if md == "intermediate" {
		v = mode.Intermediate
	}
	body := make([]byte, n)
	rng.Read(body)
	werr := func() (e error) {
		defer func() {
			if p := recover(); p != nil {
				e = fmt.Errorf("panic: %v", p)
			}
		}()
		m, err := mode.New(v, conn)
		if err != nil {
			return err
		}
		return m.WriteMsg(body)
	}()
	conn.Close()
	cancel()
	<-done
	if werr != nil {
		run.Got = append(run.Got, c08Got{K: "err", E: werr.Error()})
		return run
	}
	annLen := map[string]int{"abridged": 1, "intermediate": 4}[md]
	if len(got) < annLen+n {
		run.Got = append(run.Got, c08Got{K: "err", E: fmt.Sprintf("only %d bytes on the wire", len(got))})
		return run
	}
	for _, b := range got[:annLen] {
		run.Ann = append(run.Ann, int(b))
	}
	hdr := got[annLen : len(got)-n]
	for _, b := range hdr {
		run.Hdr = append(run.Hdr, int(b))
	}
	run.Body = bytes.Equal(got[len(got)-n:], body)
	return run
}

// a sequence of writes on one connection, some of them of lengths the mode cannot carry: what the peer receives
func c08WriteSeq(id int, md string, lens []int) c08Run {
	run := c08Run{Op: "writeseq", ID: id, Level: "mode", Mode: md, Sent: lens, Codes: []string{}, Cuts: []int{}, Got: []c08Got{}, Oks: []bool{}, Wire: []int{}}
	ln, err := net.Listen("tcp", "127.0.0.1:0")
	must(err)
	defer ln.Close()
	var got []byte
	done := make(chan struct{})
	go func() {
		defer close(done)
		c, err := ln.Accept()
		if err != nil {
			return
		}
		defer c.Close()
		got, _ = io.ReadAll(c)
	}()
	ctx, cancel := context.WithCancel(context.Background())
	conn, err := transport.NewTCP(transport.TCPConnConfig{Ctx: ctx, Host: ln.Addr().String(), Timeout: 20 * time.Second})
	must(err)
	v := mode.Abridged
	if md == "intermediate" {
		v = mode.Intermediate
	}
	func() {
		defer func() {
			if p := recover(); p != nil {
				run.Got = append(run.Got, c08Got{K: "panic", E: fmt.Sprint(p)})
			}
		}()
		m, err := mode.New(v, conn)
		if err != nil {
			run.Got = append(run.Got, c08Got{K: "err", E: err.Error()})
			return
		}
		for i, n := range lens {
			body := bytes.Repeat([]byte{byte(200 + i + 1)}, n)
			run.Oks = append(run.Oks, m.WriteMsg(body) == nil)
		}
	}()
	conn.Close()
	cancel()
	<-done
	for _, b := range got {
		run.Wire = append(run.Wire, int(b))
	}
	return run
}

func init() {
	commands["transport"] = func(args []string) {
		fs := flag.NewFlagSet("transport", flag.ExitOnError)
		seed := fs.Int64("seed", 1, "")
		out := fs.String("out", "transport_runs.ndjson", "")
		nrand := fs.Int("random", 6, "random cut sets per scenario")
		big := fs.Bool("big", false, "include 2^20-byte messages")
		pauseUs := fs.Int("pause", 600, "microseconds between segments")
		workers := fs.Int("workers", 16, "")
		fs.Parse(args)
		// a reader that takes payload bytes for a length announces gigabytes: the address space is limited so that such a
		// reader ends in the Go runtime's own out-of-memory report (with its stack) instead of the kernel's silent kill
		syscall.Setrlimit(syscall.RLIMIT_AS, &syscall.Rlimit{Cur: 10 << 30, Max: 10 << 30})
		rng := rand.New(rand.NewSource(*seed))
		pause := time.Duration(*pauseUs) * time.Microsecond
		var scs []c08Scenario
		headerCuts := func(md string, level string, lens []int) []int {
			// interesting cut offsets: inside the announcement and every header, 1-2 bytes into a body, mid body
			pos := 0
			var cuts []int
			if level == "mode" {
				n := map[string]int{"abridged": 1, "intermediate": 4}[md]
				for i := 1; i <= n; i++ {
					cuts = append(cuts, i)
				}
				pos = n
			}
			for _, l := range lens {
				h := 4
				if md == "abridged" && l/4 < 127 {
					h = 1
				}
				for i := 1; i <= h; i++ {
					cuts = append(cuts, pos+i)
				}
				if l > 1 {
					cuts = append(cuts, pos+h+1)
				}
				if l > 8 {
					cuts = append(cuts, pos+h+l/2, pos+h+l-1)
				}
				pos += h + l
			}
			return cuts
		}
		add := func(level, md string, lens []int, codes []int32) {
			all := headerCuts(md, level, lens)
			scs = append(scs, c08Scenario{level: level, md: md, lens: lens, codes: codes})            // in one piece
			scs = append(scs, c08Scenario{level: level, md: md, lens: lens, codes: codes, cuts: all}) // every interesting cut
			for _, c := range all {
				scs = append(scs, c08Scenario{level: level, md: md, lens: lens, codes: codes, cuts: []int{c}})
			}
			for k := 0; k < *nrand; k++ {
				var cs []int
				for _, c := range all {
					if rng.Intn(2) == 0 {
						cs = append(cs, c)
					}
				}
				scs = append(scs, c08Scenario{level: level, md: md, lens: lens, codes: codes, cuts: cs})
			}
			// writer dies mid-frame (strict prefix of the last frame), with and without cuts
			if len(lens) > 0 {
				last := lens[len(lens)-1]
				for _, mid := range []int{1, 2, 3, 4, 5, last / 2, last + 1} {
					if mid >= 1 {
						scs = append(scs, c08Scenario{level: level, md: md, lens: lens, codes: codes, mid: mid, cuts: all})
					}
				}
			}
		}
		for _, md := range []string{"abridged", "intermediate"} {
			add("mode", md, []int{}, nil)
			for _, l := range []int{0, 4, 8, 500, 504, 508, 512, 1024, 65532, 65536} {
				add("mode", md, []int{l}, nil)
			}
			add("mode", md, []int{8, 508, 8}, nil)
			add("mode", md, []int{504, 508, 512, 16}, nil)
			add("mode", md, []int{0, 0, 4, 0}, nil)
			add("mode", md, []int{12, 600, 4, 40}, nil)
			// a long frame, then short ones: nothing of a header outlives its frame
			add("mode", md, []int{1024, 8}, nil)
			add("mode", md, []int{4, 2048, 8, 66000, 12, 4}, nil)
			add("mode", md, []int{262144, 4, 300000, 8}, nil)
			if *big {
				add("mode", md, []int{1 << 20, 8}, nil)
				add("mode", md, []int{(1 << 24) - 4}, nil)
			}
			add("transport", md, []int{4}, []int32{-404})
			add("transport", md, []int{4, 4, 4}, []int32{-429, 2147483647, -2147483647})
			add("transport", md, []int{24, 4, 40}, []int32{-404})
			add("transport", md, []int{20, 508, 512}, nil)
			add("transport", md, []int{}, nil)
		}
		// a link slower than the reader's patience: the stream stands still inside a header, right behind a header, inside a body
		for _, md := range []string{"abridged", "intermediate"} {
			h := map[string]int{"abridged": 1, "intermediate": 4}[md]
			for _, level := range []string{"mode", "transport"} {
				ann := 0
				if level == "mode" {
					ann = h
				}
				lens := []int{24, 40, 20}
				f1 := ann + h + 24 // end of the first frame
				for _, cut := range []int{ann + h + 10, f1 + h, f1 + h + 20, f1 + 1} {
					if cut == f1+1 && md == "abridged" {
						continue
					}
					scs = append(scs, c08Scenario{level: level, md: md, lens: lens, cuts: []int{cut}, slow: true})
				}
			}
		}
		// exhaustive compositions of a short stream (every subset of cut points)
		for _, md := range []string{"abridged", "intermediate"} {
			lens := []int{4, 0, 4}
			total := map[string]int{"abridged": 1 + 5 + 1 + 5, "intermediate": 4 + 8 + 4 + 8}[md]
			step := 1
			if md == "intermediate" {
				step = 37 // 2^23 compositions: a seeded stride through them
			}
			start := 0
			if step > 1 {
				start = rng.Intn(step)
			}
			for mask := start; mask < 1<<uint(total-1); mask += step {
				if md == "intermediate" && rng.Intn(2000) != 0 {
					continue
				}
				var cs []int
				for b := 0; b < total-1; b++ {
					if mask&(1<<uint(b)) != 0 {
						cs = append(cs, b+1)
					}
				}
				scs = append(scs, c08Scenario{level: "mode", md: md, lens: lens, cuts: cs})
			}
		}
		runs := make([]c08Run, len(scs))
		var wg sync.WaitGroup
		sem := make(chan struct{}, *workers)
		for i := range scs {
			wg.Add(1)
			sem <- struct{}{}
			go func(i int, s int64) {
				defer wg.Done()
				defer func() { <-sem }()
				runs[i] = c08Execute(i+1, scs[i], rand.New(rand.NewSource(s)), pause)
			}(i, rng.Int63())
		}
		wg.Wait()
		// write direction
		id := len(runs)
		for _, md := range []string{"abridged", "intermediate"} {
			for _, l := range []int{0, 4, 8, 252, 500, 504, 508, 512, 1020, 1024, 65532, 65536, 262144, 1 << 20} {
				id++
				runs = append(runs, c08Write(id, md, l, rng))
			}
		}
		// sequences with messages the mode cannot carry among ordinary ones
		for _, md := range []string{"abridged", "intermediate"} {
			for _, lens := range [][]int{{8, 6, 8}, {3}, {5, 4}, {0, 2, 0, 4}, {508, 509, 508, 4}, {504, 510, 8}, {1, 2, 3, 4}, {12, 12, 12}, {4, 7, 7, 4, 513, 8}} {
				id++
				runs = append(runs, c08WriteSeq(id, md, lens))
			}
		}
		f, err := os.Create(*out)
		must(err)
		enc := json.NewEncoder(f)
		for i := range runs {
			sort.Ints(runs[i].Cuts)
			if runs[i].Codes == nil {
				runs[i].Codes = []string{}
			}
			if runs[i].Cuts == nil {
				runs[i].Cuts = []int{}
			}
			if runs[i].Ann == nil {
				runs[i].Ann = []int{}
			}
			if runs[i].Hdr == nil {
				runs[i].Hdr = []int{}
			}
			if runs[i].Sent == nil {
				runs[i].Sent = []int{}
			}
			if runs[i].Oks == nil {
				runs[i].Oks = []bool{}
			}
			if runs[i].Wire == nil {
				runs[i].Wire = []int{}
			}
			enc.Encode(runs[i])
		}
		f.Close()
		fmt.Printf("{\"runs\": %d}\n", len(runs))
	}
}
