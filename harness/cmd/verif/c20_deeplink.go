package main

// C20: replay of the link shapes enumerated by TLC from spec/DeeplinkDef.tla into deeplinks.Resolve.

import (
	"bytes"
	"encoding/json"
	"os"
	"os/exec"
	"flag"
	"fmt"
	"math/rand"
	"runtime"
	"strings"
	"sync"
	"sync/atomic"

	"github.com/xelaj/mtproto/telegram/deeplinks"
)

type dlCase struct {
	Scheme string   `json:"scheme"`
	Host   string   `json:"host"`
	Port   string   `json:"port"`
	Segs   []string `json:"segs"`
	Query  string   `json:"query"`
	Frag   string   `json:"frag"`
	Expect struct {
		Kind string `json:"kind"`
		Seg  int    `json:"seg"`
	} `json:"expect"`
}

const lowerAlphabet = "abcdefghijklmnopqrstuvwxyz0123456789_"

func dlSegment(class string, rng *rand.Rand) string {
	n := 1 + rng.Intn(12)
	var b strings.Builder
	switch class {
	case "lower":
		for i := 0; i < n; i++ {
			b.WriteByte(lowerAlphabet[rng.Intn(len(lowerAlphabet))])
		}
		if b.String() == "joinchat" {
			return "joinchat0"
		}
	case "mixed":
		b.WriteByte(byte('A' + rng.Intn(26))) // at least one upper-case letter
		for i := 0; i < n; i++ {
			c := lowerAlphabet[rng.Intn(len(lowerAlphabet))]
			if c >= 'a' && c <= 'z' && rng.Intn(2) == 0 {
				c -= 32
			}
			b.WriteByte(c)
		}
	case "empty":
	case "joinchat":
		return "joinchat"
	case "escape":
		for i := 0; i < n; i++ {
			if rng.Intn(3) == 0 {
				fmt.Fprintf(&b, "%%%02X", 0x41+rng.Intn(26))
			} else {
				b.WriteByte(lowerAlphabet[rng.Intn(len(lowerAlphabet))])
			}
		}
		b.WriteString("%2F")
	case "unicode":
		runes := []rune("юзерЖФбот名前ñÜß")
		for i := 0; i < n; i++ {
			b.WriteRune(runes[rng.Intn(len(runes))])
		}
	}
	return b.String()
}

func dlRender(c *dlCase, rng *rand.Rand) (string, []string) {
	var b strings.Builder
	if c.Scheme != "" {
		b.WriteString(c.Scheme + "://")
	}
	b.WriteString(c.Host)
	b.WriteString(c.Port)
	segs := make([]string, len(c.Segs))
	for i, cl := range c.Segs {
		segs[i] = dlSegment(cl, rng)
		b.WriteString("/" + segs[i])
	}
	if c.Query != "" {
		b.WriteString("?start=" + dlSegment("lower", rng))
	}
	if c.Frag != "" {
		b.WriteString("#" + dlSegment("lower", rng))
	}
	return b.String(), segs
}

type dlOutcome struct {
	Kind  string `json:"kind"` // user | invite | error | panic | other
	Value string `json:"value,omitempty"`
	Err   string `json:"err,omitempty"`
}

func dlRun(link string) (out dlOutcome) {
	defer func() {
		if r := recover(); r != nil {
			out = dlOutcome{Kind: "panic", Err: fmt.Sprint(r)}
		}
	}()
	res, err := deeplinks.Resolve(link)
	if err != nil {
		return dlOutcome{Kind: "error", Err: err.Error()}
	}
	switch v := res.(type) {
	case *deeplinks.ResolveParameters:
		return dlOutcome{Kind: "user", Value: v.Domain}
	case *deeplinks.JoinParameters:
		return dlOutcome{Kind: "invite", Value: v.Invite}
	}
	return dlOutcome{Kind: "other", Err: fmt.Sprintf("%T", res)}
}

func swapCase(s string) string {
	b := []byte(s)
	for i, ch := range b {
		switch {
		case ch >= 'a' && ch <= 'z':
			b[i] = ch - 32
		case ch >= 'A' && ch <= 'Z':
			b[i] = ch + 32
		}
	}
	return string(b)
}

func hostClass(h string) string {
	switch h {
	case "":
		return "empty"
	case "t.me", "telegram.me", "telegram.dog", "tx.me", "telesco.pe":
		return "reserved"
	}
	return "foreign"
}

func init() {
	commands["deeplink"] = func(args []string) {
		fs := flag.NewFlagSet("deeplink", flag.ExitOnError)
		cases := fs.String("cases", "", "ndjson of link shapes from TLC")
		seed := fs.Int64("seed", 1, "")
		conc := fs.Int("concretisations", 2, "renderings per shape")
		reps := fs.Int("reps", 20, "repetitions per rendering (map iteration order)")
		nrand := fs.Int("random", 20000, "unstructured strings (no-panic only)")
		fs.Parse(args)
		rng := rand.New(rand.NewSource(*seed))
		rep := NewReport()
		distinct := map[string]bool{}
		phase := ""
		runCases := func(conc, reps int) {
		must(readNDJSON(*cases, func(raw json.RawMessage) error {
			var c dlCase
			if err := json.Unmarshal(raw, &c); err != nil {
				return err
			}
			for k := 0; k < conc; k++ {
				link, segs := dlRender(&c, rng)
				distinct[link] = true
				want := dlOutcome{Kind: c.Expect.Kind}
				switch c.Expect.Kind {
				case "user":
					want.Value = strings.ToLower(segs[c.Expect.Seg-1])
				case "invite":
					want.Value = segs[c.Expect.Seg-1]
				}
				var first dlOutcome
				for r := 0; r < reps; r++ {
					got := dlRun(link)
					rep.Evaluations++
					if r == 0 {
						first = got
						rep.Sample(map[string]interface{}{"link": link, "expect": want, "got": got})
					}
					cls := phase + fmt.Sprintf("scheme=%s:host=%s:port=%s:segs=%s", c.Scheme, hostClass(c.Host), c.Port, strings.Join(c.Segs, ","))
					item := map[string]interface{}{"link": link, "shape": c, "want": want, "got": got}
					if got.Kind == "panic" || got.Kind == "other" {
						rep.Disagree("panic:"+cls, fmt.Sprintf("Resolve(%q) panicked: %s", link, got.Err), item)
						break
					}
					if got.Kind != first.Kind || got.Value != first.Value {
						rep.Disagree("nondeterministic:"+cls, fmt.Sprintf("Resolve(%q) gave %v then %v", link, first, got), item)
						break
					}
					if want.Kind == "open" {
						continue
					}
					if got.Kind != want.Kind || got.Value != want.Value {
						rep.Disagree(fmt.Sprintf("%s-for-%s:%s", got.Kind, want.Kind, cls),
							fmt.Sprintf("Resolve(%q) = %s %q (%s), specification says %s %q", link, got.Kind, got.Value, got.Err, want.Kind, want.Value), item)
						break
					}
				}
				// right after it, the link that differs from it in the case of the token / user name only: an invite token is
				// case-sensitive, a user name is not - whatever the resolver remembers of the link before
				if (want.Kind == "invite" || want.Kind == "user") && c.Expect.Seg >= 1 {
					seg := segs[c.Expect.Seg-1]
					sw := swapCase(seg)
					if sw != seg && strings.Count(link, seg) == 1 {
						link2 := strings.Replace(link, seg, sw, 1)
						want2 := dlOutcome{Kind: want.Kind, Value: sw}
						if want.Kind == "user" {
							want2.Value = strings.ToLower(sw)
						}
						got := dlRun(link2)
						rep.Evaluations++
						if got.Kind != want2.Kind || got.Value != want2.Value {
							cls := phase + fmt.Sprintf("scheme=%s:host=%s:port=%s:segs=%s", c.Scheme, hostClass(c.Host), c.Port, strings.Join(c.Segs, ","))
							rep.Disagree(fmt.Sprintf("%s-for-%s:after-the-same-link-in-another-case:%s", got.Kind, want2.Kind, cls),
								fmt.Sprintf("Resolve(%q) right after Resolve(%q) = %s %q (%s), specification says %s %q", link2, link, got.Kind, got.Value, got.Err, want2.Kind, want2.Value),
								map[string]interface{}{"link": link2, "before": link, "want": want2, "got": got})
						}
					}
				}
			}
			return nil
		}))
		}
		runCases(*conc, *reps)
		// what the package hands out belongs to the caller: the list of hosts it reports is overwritten, sorted backwards and
		// truncated by its caller, results of earlier resolutions are edited - and every link still resolves as specified
		func() {
			defer func() { recover() }()
			hosts := deeplinks.ReservedHosts()
			for i := range hosts {
				hosts[i] = fmt.Sprintf("changed-by-caller-%d.example", i)
			}
			for _, l := range []string{"t.me/SomeUser", "https://telegram.me/joinchat/AbCdEf", "tg://resolve?domain=x"} {
				if d, err := deeplinks.Resolve(l); err == nil {
					switch v := d.(type) {
					case *deeplinks.ResolveParameters:
						v.Domain, v.Post = "changed-by-caller", 77
					case *deeplinks.JoinParameters:
						v.Invite = "changed-by-caller"
					}
				}
			}
		}()
		phase = "after-the-caller-changed-what-it-was-handed:"
		runCases(1, 2)
		// unstructured strings: totality only
		alphabet := []string{"t.me", "telegram.me", "/", "//", ":", "://", "http", "https", "tg", "?", "#", "%", "%zz", "%2F", "@", "[", "]", "joinchat", "a", "B", " ", "\x00", "\t", "é", "..", ":443", "::", "\\", "{", "}", "{token}", "+", "&", "="}
		for i := 0; i < *nrand; i++ {
			var b strings.Builder
			for k := rng.Intn(7); k >= 0; k-- {
				b.WriteString(alphabet[rng.Intn(len(alphabet))])
			}
			link := b.String()
			distinct[link] = true
			got := dlRun(link)
			rep.Evaluations++
			if got.Kind == "panic" || got.Kind == "other" {
				rep.Disagree("panic:unstructured", fmt.Sprintf("Resolve(%q) panicked: %s", link, got.Err), map[string]interface{}{"link": link, "got": got})
			}
		}
		rep.Distinct = len(distinct)
		rep.Emit()
	}
}

// `verif deeplinkconc`: the first resolutions of a process, from many goroutines released together (a resolver is a
// function of its argument: whoever calls first, and whoever calls at the same time, gets the declared meaning).
func init() {
	commands["deeplinkconc"] = func(args []string) {
		fs := flag.NewFlagSet("deeplinkconc", flag.ExitOnError)
		seed := fs.Int64("seed", 1, "")
		children := fs.Int("children", 0, "run this many fresh processes of this phase and add up what they report")
		fs.Parse(args)
		if *children > 0 {
			self, err := os.Executable()
			must(err)
			total := NewReport()
			for k := 0; k < *children; k++ {
				cmd := exec.Command(self, "deeplinkconc", "-seed", fmt.Sprint(*seed*1000+int64(k)))
				var so, se bytes.Buffer
				cmd.Stdout, cmd.Stderr = &so, &se
				if err := cmd.Run(); err != nil {
					first := strings.SplitN(se.String(), "\n", 2)[0]
					if strings.Contains(se.String(), "telegram/deeplinks") {
						total.Disagree("process-died:first-use-under-concurrency", "96 goroutines resolving links as the first calls of the process: "+first, map[string]interface{}{"stderr": truncStr(se.String(), 2500)})
						total.Evaluations++
						continue
					}
					must(fmt.Errorf("child failed outside the library: %v: %s", err, truncStr(se.String(), 1500)))
				}
				var r Report
				must(json.Unmarshal(so.Bytes(), &r))
				total.Evaluations += r.Evaluations
				for _, d := range r.Disagreements {
					total.Disagree(d.Sig, d.Detail, d.Case)
				}
			}
			total.Distinct = *children
			total.Emit()
			return
		}
		rng := rand.New(rand.NewSource(*seed))
		rep := NewReport()
		hosts := []string{"t.me", "telegram.me", "telegram.dog", "tx.me", "telesco.pe"}
		type job struct{ link, wantKind, wantVal string }
		var jobs []job
		ng := runtime.NumCPU() // as many as can run at the same instant
		if ng < 2 {
			ng = 2
		}
		for g := 0; g < ng; g++ {
			h := hosts[g%len(hosts)]
			name := dlSegment("lower", rng)
			switch g % 3 {
			case 0:
				jobs = append(jobs, job{"https://" + h + "/" + name, "user", name})
			case 1:
				jobs = append(jobs, job{h + "/joinchat/" + name, "invite", name})
			default:
				jobs = append(jobs, job{"http://" + h + ":443/" + name, "user", name})
			}
		}
		var arrived, start int32
		outs := make([]dlOutcome, len(jobs))
		var wg sync.WaitGroup
		for i := range jobs {
			wg.Add(1)
			go func(i int) {
				defer wg.Done()
				atomic.AddInt32(&arrived, 1)
				for atomic.LoadInt32(&start) == 0 { // spin: all leave within nanoseconds of each other
				}
				outs[i] = dlRun(jobs[i].link)
			}(i)
		}
		for atomic.LoadInt32(&arrived) < int32(len(jobs)) {
			runtime.Gosched()
		}
		atomic.StoreInt32(&start, 1)
		wg.Wait()
		for i, j := range jobs {
			rep.Evaluations++
			if outs[i].Kind != j.wantKind || outs[i].Value != j.wantVal {
				rep.Disagree("first-use-under-concurrency:"+j.wantKind, fmt.Sprintf("Resolve(%q) among the first calls of the process, made together with the others: %+v, declared %s %q", j.link, outs[i], j.wantKind, j.wantVal), map[string]interface{}{"link": j.link})
			}
		}
		rep.Distinct = len(jobs)
		rep.Emit()
	}
}
