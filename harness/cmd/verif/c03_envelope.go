package main

// C03 / C04: term cases of spec/EnvelopeTerm.tla against internal/mtproto/messages.

import (
	"bytes"
	"encoding/json"
	"flag"
	"fmt"
	"math/big"
	"math/rand"

	"github.com/xelaj/mtproto/internal/mtproto/messages"
	"github.com/xelaj/mtproto/internal/utils"
	"github.com/xelaj/mtproto/verifharness/term"
)

type envInformator struct {
	key       []byte
	salt, sid int64
	seq       int32
}

func (i *envInformator) GetSessionID() int64  { return i.sid }
func (i *envInformator) GetSeqNo() int32      { return i.seq }
func (i *envInformator) GetServerSalt() int64 { return i.salt }
func (i *envInformator) GetAuthKey() []byte   { return i.key }

// flipInformator: the salt changes after it has been read once
type flipInformator struct {
	envInformator
	next  int64
	reads int
}

func (i *flipInformator) GetServerSalt() int64 {
	i.reads++
	if i.reads > 1 {
		return i.next
	}
	return i.salt
}

func pick64(rng *rand.Rand) int64 {
	switch rng.Intn(7) {
	case 0:
		return 0
	case 1:
		return -1
	case 2:
		return -9223372036854775808
	case 3:
		return 9223372036854775807
	case 4:
		return 0x0102030405060708
	}
	return int64(rng.Uint64())
}

func midWithMod4(rng *rand.Rand, m int64) int64 {
	v := pick64(rng)
	return (v &^ 3) | m
}

type envOutcome struct {
	Kind string `json:"kind"` // accepted | refused | panic
	Err  string `json:"err,omitempty"`
	msg  *messages.Encrypted
}

func envReceive(pkt, key []byte) (o envOutcome) {
	defer func() {
		if p := recover(); p != nil {
			o = envOutcome{Kind: "panic", Err: fmt.Sprint(p)}
		}
	}()
	m, err := messages.DeserializeEncrypted(pkt, key)
	if err != nil {
		return envOutcome{Kind: "refused", Err: err.Error()}
	}
	return envOutcome{Kind: "accepted", msg: m}
}

func flipBit(b []byte, lo, hi int, rng *rand.Rand) ([]byte, int) {
	out := append([]byte{}, b...)
	pos := (lo+rng.Intn(hi-lo))*8 + rng.Intn(8)
	out[pos/8] ^= 1 << uint(pos%8)
	return out, pos
}

func init() {
	commands["envelope"] = func(args []string) {
		fs := flag.NewFlagSet("envelope", flag.ExitOnError)
		casesPath := fs.String("cases", "", "")
		mutPath := fs.String("mutations", "", "")
		seed := fs.Int64("seed", 1, "")
		conc := fs.Int("concretisations", 3, "")
		allBits := fs.Bool("allbits", false, "flip every bit of the packet (thorough)")
		only := fs.String("only", "", "c03 | c04")
		fs.Parse(args)
		rng := rand.New(rand.NewSource(*seed))
		rep := NewReport()
		// keys of one process are not independent draws: every third key shares a stretch (its first 8 / 32 bytes, its last 8
		// bytes, or all but one byte) with the key used just before - whatever the code remembers about a key must be about
		// the whole key
		var prevKey []byte
		relatedNote := ""
		bindCommon := func(env *term.Env, n int, midMod int64) (key []byte, salt, sid, mid int64, seq int32, body []byte) {
			key = randBytes(rng, 256)
			relatedNote = ""
			if prevKey != nil && rng.Intn(3) == 0 {
				switch rng.Intn(4) {
				case 0:
					copy(key[:8], prevKey[:8])
					relatedNote = " (key shares its first 8 bytes with the key used before)"
				case 1:
					copy(key[:32], prevKey[:32])
					relatedNote = " (key shares its first 32 bytes with the key used before)"
				case 2:
					copy(key[248:], prevKey[248:])
					relatedNote = " (key shares its last 8 bytes with the key used before)"
				case 3:
					copy(key, prevKey)
					key[8+rng.Intn(240)] ^= 1 << uint(rng.Intn(8))
					relatedNote = " (key differs from the key used before in one bit)"
				}
			}
			prevKey = key
			salt, sid, mid = pick64(rng), pick64(rng), midWithMod4(rng, midMod)
			seq = int32(rng.Intn(1<<20)) * 2
			if rng.Intn(8) == 0 {
				seq = 0
			}
			body = randBytes(rng, n)
			if rng.Intn(3) == 0 { // TL bodies often end in zero words (flags, empty strings, zero ints)
				body = make([]byte, n)
			}
			env.Vars["auth_key"], env.Vars["body"] = term.Bytes(key), term.Bytes(body)
			env.Vars["salt"], env.Vars["sid"], env.Vars["mid"], env.Vars["seq"] = term.Int64(salt), term.Int64(sid), term.Int64(mid), term.Int64(int64(seq))
			return
		}
		if *only != "c04" {
			must(readNDJSON(*casesPath, func(raw json.RawMessage) error {
				c, err := parseTermCase(raw)
				if err != nil {
					return err
				}
				n := c.Int("n")
				for k := 0; k < *conc; k++ {
					env := term.NewEnv(rng)
					rep.Evaluations++
					cls := fmt.Sprintf("%s:residue=%d", c.Kind, (32+n)%16)
					info := map[string]interface{}{"kind": c.Kind, "n": n, "seed": *seed}
					fail := ""
					switch c.Kind {
					case "c2s":
						var ack bool
						json.Unmarshal(c.Raw["ack"], &ack)
						key, salt, sid, mid, seq, body := bindCommon(env, n, 0)
						cls += fmt.Sprintf(":ack=%v", ack)
						inf := &envInformator{key: key, salt: salt, sid: sid, seq: seq}
						// the packet is a function of (key, salt, session, id, seq_no, body) only: whatever else the
						// message struct carries (a cached key id: right, absent or stale) must not reach the wire
						m := &messages.Encrypted{Msg: body, MsgID: mid, AuthKeyHash: utils.AuthKeyHash(key)}
						switch (k + n) % 3 {
						case 1:
							m.AuthKeyHash = nil
						case 2:
							m.AuthKeyHash = []byte{1, 2, 3, 4, 5, 6, 7, 8}
							cls += ":stale-key-id-field"
						}
						var pkt []byte
						var e error
						p := recoverTo(func() { pkt, e = m.Serialize(inf, ack) })
						if p != nil || e != nil {
							fail = fmt.Sprintf("Serialize: panic=%v err=%v", p, e)
							break
						}
						env.Vars["pkt"] = term.Bytes(pkt)
						c.bindDefs(env, "defs")
						fail = c.runChecks(env)
						// the bytes handed out belong to the caller: a later Serialize (another client of the same process,
						// possibly while this packet is still being written to its socket) must not touch them
						if fail == "" {
							keep := append([]byte{}, pkt...)
							other := &messages.Encrypted{Msg: randBytes(rng, n+16), MsgID: mid + 4}
							recoverTo(func() {
								other.Serialize(&envInformator{key: randBytes(rng, 256), salt: salt + 1, sid: sid + 1, seq: seq + 2}, !ack)
							})
							if !bytes.Equal(keep, pkt) {
								fail = "the packet returned by Serialize changed when another message was serialised afterwards"
							}
						}
						// the receive loop may adopt a new salt at any moment (no lock is shared with the send path): whichever salt
						// a packet carries, it is one consistent packet
						if fail == "" {
							fi := &flipInformator{envInformator: envInformator{key: key, salt: salt, sid: sid, seq: seq}, next: salt ^ 0x5a5a5a5a}
							var p2 []byte
							var e2 error
							recoverTo(func() { p2, e2 = (&messages.Encrypted{Msg: body, MsgID: mid}).Serialize(fi, ack) })
							s2, _, mid2, _, b2, ok := openC2S(key, p2)
							if e2 != nil || !ok || (s2 != salt && s2 != fi.next) || mid2 != mid || !bytes.Equal(b2, body) {
								fail = fmt.Sprintf("with the salt changing while the packet is sealed, the packet is not one a conformant server opens (err=%v opened=%v salt read %d times)", e2, ok, fi.reads)
							}
						}
						// the same message value sealed once more (a re-send under a new salt and seq_no): whatever the first sealing
						// left in the value, the second packet is again a function of (key, salt, session, id, seq_no, body)
						if fail == "" {
							inf2 := &envInformator{key: key, salt: salt ^ 0x77, sid: sid, seq: seq + 2}
							var p3 []byte
							var e3 error
							pn := recoverTo(func() { p3, e3 = m.Serialize(inf2, !ack) })
							s3, sid3, mid3, _, b3, ok := openC2S(key, p3)
							if pn != nil || e3 != nil || !ok || s3 != inf2.salt || sid3 != sid || mid3 != mid || !bytes.Equal(b3, body) {
								fail = fmt.Sprintf("the same message value sealed a second time under another salt is not a packet a conformant server opens to its fields (panic=%v err=%v opened=%v)", pn, e3, ok)
							}
						}
					case "s2c":
						key, _, _, _, _, _ := bindCommon(env, n, []int64{1, 3}[rng.Intn(2)])
						pv, err := env.Eval(c.Term("pkt"))
						must(err)
						o := envReceive(pv.B, key)
						if o.Kind != "accepted" {
							fail = fmt.Sprintf("a packet sealed per the specification (body %d bytes) was %s: %s", n, o.Kind, o.Err)
							break
						}
						env.Vars["r_salt"], env.Vars["r_sid"], env.Vars["r_mid"], env.Vars["r_seq"] = term.Int64(o.msg.Salt), term.Int64(o.msg.SessionID), term.Int64(o.msg.MsgID), term.Int64(int64(o.msg.SeqNo))
						env.Vars["r_body"] = term.Bytes(o.msg.Msg)
						fail = c.runChecks(env)
						// a value that came out of a received packet, sealed for sending: the received packet's key material does
						// not travel with it
						if fail == "" {
							inf := &envInformator{key: key, salt: o.msg.Salt + 1, sid: o.msg.SessionID, seq: 4}
							om := o.msg
							om.MsgID = (om.MsgID &^ 3) + 4
							var p3 []byte
							var e3 error
							pn := recoverTo(func() { p3, e3 = om.Serialize(inf, true) })
							s3, _, mid3, _, b3, ok := openC2S(key, p3)
							if pn != nil || e3 != nil || !ok || s3 != inf.salt || mid3 != om.MsgID || !bytes.Equal(b3, om.Msg) {
								fail = fmt.Sprintf("a received message sealed for sending is not a packet a conformant server opens to its fields (panic=%v err=%v opened=%v)", pn, e3, ok)
							}
						}
					case "plain_out":
						_, _, _, mid, _, body := bindCommon(env, n, 0)
						var pkt []byte
						p := recoverTo(func() { pkt, _ = (&messages.Unencrypted{Msg: body, MsgID: mid}).Serialize(&envInformator{}) })
						if p != nil {
							fail = fmt.Sprintf("panic %v", p)
							break
						}
						env.Vars["pkt"] = term.Bytes(pkt)
						fail = c.runChecks(env)
					case "plain_in":
						bindCommon(env, n, 1)
						pv, err := env.Eval(c.Term("pkt"))
						must(err)
						var m *messages.Unencrypted
						var e error
						p := recoverTo(func() { m, e = messages.DeserializeUnencrypted(pv.B) })
						if p != nil || e != nil {
							fail = fmt.Sprintf("DeserializeUnencrypted: panic=%v err=%v", p, e)
							break
						}
						env.Vars["r_mid"], env.Vars["r_body"] = term.Int64(m.MsgID), term.Bytes(m.Msg)
						fail = c.runChecks(env)
					}
					info["class"] = cls
					rep.Sample(info)
					if fail != "" {
						rep.Disagree("C03:"+cls, fail+relatedNote, info)
					}
				}
				return nil
			}))
		}
		nmut := 0
		if *only != "c03" {
			c04LiveTransport(rep, rng, *seed, 6)
		}
		if *only != "c03" && *mutPath != "" {
			must(readNDJSON(*mutPath, func(raw json.RawMessage) error {
				c, err := parseTermCase(raw)
				if err != nil {
					return err
				}
				n := c.Int("n")
				reps := *conc
				mutation := c.Str("mutation")
				if c.Kind == "declared" {
					mutation = fmt.Sprintf("declared(%d)", c.Int("decl"))
					reps = 1
				}
				for k := 0; k < reps; k++ {
					env := term.NewEnv(rng)
					midMod := []int64{1, 3}[rng.Intn(2)]
					switch mutation {
					case "mid-mod4-0":
						midMod = 0
					case "mid-mod4-2":
						midMod = 2
					case "mid-mod4-3":
						midMod = 3
					}
					key, _, _, _, _, _ := bindCommon(env, n, midMod)
					if c.Kind == "declared" {
						env.Vars["padding"] = term.Bytes(randBytes(rng, c.Int("padlen")))
					}
					var variants [][]byte
					var notes []string
					build := func(field string) []byte {
						pv, err := env.Eval(c.Term(field))
						must(err)
						return pv.B
					}
					base := []byte(nil)
					if mutation == "rekey" {
						other := randBytes(rng, 256)
						if rng.Intn(2) == 0 { // a foreign key that begins like the session's key is a foreign key all the same
							copy(other[:8], key[:8])
						}
						env.Vars["auth_key"] = term.Bytes(other)
						base = build("pkt")
						env.Vars["auth_key"] = term.Bytes(key)
					} else if mutation == "otherdir" {
						base = build("pkt_other")
					} else {
						base = build("pkt")
					}
					nb := (len(base) - 24) / 16
					add := func(b []byte, note string) { variants = append(variants, b); notes = append(notes, note) }
					flips := func(lo, hi int) {
						if *allBits {
							for pos := lo * 8; pos < hi*8; pos++ {
								o := append([]byte{}, base...)
								o[pos/8] ^= 1 << uint(pos%8)
								add(o, fmt.Sprintf("bit %d", pos))
							}
							return
						}
						o, pos := flipBit(base, lo, hi, rng)
						add(o, fmt.Sprintf("bit %d", pos))
					}
					switch mutation {
					case "none", "rekey", "otherdir", "mid-mod4-0", "mid-mod4-2", "mid-mod4-3":
						add(base, "")
					case "flip-keyid":
						flips(0, 8)
					case "flip-msgkey":
						flips(8, 24)
					case "flip-ct-first":
						flips(24, 40)
					case "flip-ct-middle":
						mid := 24 + 16*(nb/2)
						flips(mid, mid+16)
					case "flip-ct-last":
						flips(len(base)-16, len(base))
					case "trunc-0":
						add([]byte{}, "0 bytes")
					case "trunc-1-7":
						add(base[:1+rng.Intn(7)], "")
					case "trunc-8-23":
						add(base[:8+rng.Intn(16)], "")
					case "trunc-24":
						add(base[:24], "24 bytes")
					case "trunc-unaligned":
						add(base[:24+16*rng.Intn(nb)+1+rng.Intn(15)], "")
						for cut := 1; cut < 16; cut++ { // every cut inside the last block
							add(base[:len(base)-cut], fmt.Sprintf("last %d bytes missing", cut))
						}
					case "trunc-blocks":
						for j := 1; j < nb; j++ {
							add(base[:24+16*j], fmt.Sprintf("%d of %d blocks", j, nb))
						}
						if nb == 1 {
							add(base[:24], "0 blocks")
						}
					case "extend-block":
						add(append(append([]byte{}, base...), randBytes(rng, 16)...), "one more block")
					case "garbage":
						add(append(append([]byte{}, base[:24]...), randBytes(rng, 16*(1+rng.Intn(4)))...), "")
					default:
						add(base, "")
					}
					for vi, pkt := range variants {
						nmut++
						rep.Evaluations++
						env.Vars["pkt"] = term.Bytes(pkt)
						for _, name := range []string{"kid", "mk", "ct", "dec", "L", "o_salt", "o_sid", "o_mid", "o_seq", "o_body"} {
							delete(env.Vars, name)
						}
						c.bindDefs(env, "defs")
						why := runCheckList(env, c.checkList("accept"))
						expectAccept := why == ""
						o := envReceive(pkt, key)
						cls := fmt.Sprintf("%s:n=%d", mutation, n)
						if c.Kind == "declared" {
							d := c.Int("decl")
							rel := "inside"
							switch {
							case d < 0:
								rel = "negative"
							case d > n+c.Int("padlen"):
								rel = "beyond-data"
							case d > n:
								rel = "into-padding"
							case d == n:
								rel = "exact"
							}
							cls = "declared:" + rel
						}
						info := map[string]interface{}{"kind": c.Kind, "mutation": mutation, "n": n, "note": notes[vi], "packet_len": len(pkt),
							"spec_accepts": expectAccept, "spec_reason": why, "got": o.Kind, "err": o.Err, "seed": *seed, "class": cls}
						rep.Sample(info)
						switch {
						case o.Kind == "panic":
							rep.Disagree("C04:panic:"+cls, fmt.Sprintf("DeserializeEncrypted panicked on a %s packet (%s): %s", mutation, notes[vi], o.Err), info)
						case expectAccept && o.Kind != "accepted":
							rep.Disagree("C04:refused-valid:"+cls, fmt.Sprintf("a packet that passes all five receive checks was refused: %s", o.Err), info)
						case !expectAccept && o.Kind == "accepted":
							rep.Disagree("C04:accepted-invalid:"+cls, fmt.Sprintf("a %s packet (%s) was accepted; the specification refuses it: %s", mutation, notes[vi], why), info)
						case expectAccept:
							want := []term.Val{env.Vars["o_salt"], env.Vars["o_sid"], env.Vars["o_mid"], env.Vars["o_seq"]}
							got := []int64{o.msg.Salt, o.msg.SessionID, o.msg.MsgID, int64(o.msg.SeqNo)}
							for i := range want {
								if want[i].N == nil || want[i].N.Cmp(big.NewInt(got[i])) != 0 {
									rep.Disagree("C04:wrong-fields:"+cls, fmt.Sprintf("accepted packet delivered field %d = %d, sealed %s", i, got[i], want[i]), info)
								}
							}
							if !bytes.Equal(o.msg.Msg, env.Vars["o_body"].B) {
								rep.Disagree("C04:wrong-body:"+cls, "accepted packet delivered a different body than the key holder sealed", info)
							}
						}
					}
				}
				return nil
			}))
		}
		rep.Distinct = rep.Evaluations
		rep.Extra["mutated_packets"] = nmut
		rep.Emit()
	}
}
