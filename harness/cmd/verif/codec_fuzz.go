package main

// `verif codecfuzz`: C15.  Structure-aware mutation of valid images (from TLC, TLCodecGen) with the
// word classes of spec/TLDecoder.tla: every prefix truncation, every 32-bit word replaced by each
// class (registered struct id, enum id, vector / bool / null ids, an unregistered id, boundary
// integers), counts and lengths up to 2^32-1, containers with negative counts and sizes, broken
// gzip bodies - decoded as unknown object (with and without vector hints) and as the named type,
// under recover, a watchdog and allocation accounting.  The process runs under an address-space
// limit; before every mutant one line is printed so that the parent knows what killed it.

import (
	"bufio"
	"bytes"
	"compress/gzip"
	"encoding/binary"
	"encoding/json"
	"flag"
	"fmt"
	"math/rand"
	"os"
	"reflect"
	"runtime"
	"sort"
	"syscall"
	"time"

	"github.com/xelaj/mtproto/internal/encoding/tl"
)

type fuzzOutcome struct {
	kind   string // ok | panic | hang | alloc
	detail string
}

var fuzzHints = [][]reflect.Type{nil, {reflect.TypeOf([]int32{})}, {reflect.TypeOf([]int64{})}, {reflect.TypeOf([]tl.Object{})}}

func fuzzDecode(data []byte, named reflect.Type, hint int) fuzzOutcome {
	done := make(chan fuzzOutcome, 1)
	var ms0, ms1 runtime.MemStats
	runtime.ReadMemStats(&ms0)
	go func() {
		defer func() {
			if p := recover(); p != nil {
				done <- fuzzOutcome{"panic", fmt.Sprint(p)}
			}
		}()
		if hint >= 0 {
			tl.DecodeUnknownObject(data, fuzzHints[hint]...)
		} else if named.Kind() == reflect.Ptr {
			tl.Decode(data, reflect.New(named.Elem()).Interface())
		}
		done <- fuzzOutcome{"ok", ""}
	}()
	select {
	case o := <-done:
		runtime.ReadMemStats(&ms1)
		if o.kind == "ok" {
			if d := ms1.TotalAlloc - ms0.TotalAlloc; d > uint64(64*len(data)+(1<<20)) {
				return fuzzOutcome{"alloc", fmt.Sprintf("%d bytes allocated for %d bytes of input", d, len(data))}
			}
		}
		return o
	case <-time.After(3 * time.Second):
		return fuzzOutcome{"hang", "decoder still running after 3 s"}
	}
}

func init() {
	commands["codecfuzz"] = func(args []string) {
		fs := flag.NewFlagSet("codecfuzz", flag.ExitOnError)
		casesPath := fs.String("cases", "", "")
		seed := fs.Int64("seed", 1, "")
		every := fs.Int("every", 1, "use every n-th case")
		skip := fs.Int("skip", 0, "mutants to skip (resume after a crash)")
		maxWords := fs.Int("maxwords", 24, "mutate at most this many leading words per image")
		limitGB := fs.Uint64("aslimit", 12, "address space limit in GiB (0 = none)")
		fs.Parse(args)
		if *limitGB > 0 {
			lim := syscall.Rlimit{Cur: *limitGB << 30, Max: *limitGB << 30}
			syscall.Setrlimit(syscall.RLIMIT_AS, &lim)
		}
		loadRegistry()
		rng := rand.New(rand.NewSource(*seed))
		objs, enums := tl.VerifRegistry()
		var structIDs, enumIDs []uint32
		for crc := range objs {
			if enums[crc] {
				enumIDs = append(enumIDs, crc)
			} else {
				structIDs = append(structIDs, crc)
			}
		}
		sort.Slice(structIDs, func(i, j int) bool { return structIDs[i] < structIDs[j] })
		sort.Slice(enumIDs, func(i, j int) bool { return enumIDs[i] < enumIDs[j] })
		out := bufio.NewWriter(os.Stdout)
		defer out.Flush()
		rep := NewReport()
		n := 0
		classes := map[string]bool{}
		run := func(class string, data []byte, named reflect.Type, info map[string]interface{}) {
			for hint := -1; hint < len(fuzzHints); hint++ {
				if hint == -1 && (named == nil || named.Kind() != reflect.Ptr) {
					continue
				}
				n++
				if n <= *skip {
					continue
				}
				fmt.Fprintf(out, "M %d %s hint=%d %x\n", n, class, hint, truncHex(data))
				out.Flush()
				o := fuzzDecode(data, named, hint)
				rep.Evaluations++
				classes[class] = true
				if o.kind != "ok" {
					it := map[string]interface{}{"class": class, "hint": hint, "bytes": fmt.Sprintf("%x", truncHex(data)), "len": len(data), "outcome": o.kind, "detail": o.detail}
					for k, v := range info {
						it[k] = v
					}
					rep.Disagree("C15:"+o.kind+":"+class, fmt.Sprintf("decoding a %s mutant of %v: %s %s", class, info["name"], o.kind, o.detail), it)
				}
			}
		}
		word := func(v uint32) []byte { b := make([]byte, 4); binary.LittleEndian.PutUint32(b, v); return b }
		caseNo := 0
		must(readNDJSON(*casesPath, func(raw json.RawMessage) error {
			caseNo++
			if caseNo%*every != 0 {
				return nil
			}
			var c codecCase
			if err := json.Unmarshal(raw, &c); err != nil {
				return err
			}
			if c.TooLarge || maxLen(c.Val) > 4096 {
				return nil
			}
			img := render(c.Img)
			named := registryTypes[c.IDHex]
			info := map[string]interface{}{"name": c.Name, "pat": c.Pat}
			if len(rep.Samples) < 3 {
				rep.Sample(map[string]interface{}{"name": c.Name, "pat": c.Pat, "image": fmt.Sprintf("%x", truncHex(img))})
			}
			run("valid", img, named, info)
			// truncations
			for l := 0; l < len(img); l += 4 {
				run("truncated", img[:l], named, info)
			}
			for _, l := range []int{1, len(img) - 1, len(img) - 2, len(img) - 3} {
				if l > 0 && l < len(img) {
					run("truncated-unaligned", img[:l], named, info)
				}
			}
			// word replacement
			nw := len(img) / 4
			if nw > *maxWords {
				nw = *maxWords
			}
			repl := map[string]uint32{
				"struct-id": structIDs[rng.Intn(len(structIDs))], "struct-id-2": structIDs[rng.Intn(len(structIDs))], "enum-id": enumIDs[rng.Intn(len(enumIDs))],
				"vector-id": 0x1cb5c415, "bool-true": 0x997275b5, "bool-false": 0xbc799737, "null-id": 0x56730bcc, "unknown-id": 0xdeadbeef,
				"gzip-id": 0x3072cfa1, "container-id": 0x73f1f8dc, "rpc-result-id": 0xf35c6d01,
				"int-0": 0, "int-1": 1, "int-2": 2, "int-minus1": 0xffffffff, "int-max": 0x7fffffff, "int-min": 0x80000000, "count-2^24": 0x01000000,
				// counts whose multiples wrap around 32 bits
				"count-2^30": 0x40000000, "count-2^30+1": 0x40000001, "count-3*2^30": 0xc0000000, "count-2^29": 0x20000000, "count-2^28": 0x10000000,
				"strhdr-fe-max": 0xfffffffe, "strhdr-fe-big": 0x00fffffe, "strhdr-253": 0x000000fd, "all-flags": 0xffffffff,
			}
			keys := make([]string, 0, len(repl))
			for k := range repl {
				keys = append(keys, k)
			}
			sort.Strings(keys)
			for w := 0; w < nw; w++ {
				for _, k := range keys {
					m := append([]byte{}, img...)
					copy(m[4*w:], word(repl[k]))
					run("word-"+k, m, named, info)
				}
			}
			return nil
		}))
		// every registered constructor id in front of small and of boundary words (also as the object inside
		// rpc_result and as an interface field of a known object)
		allIDs := make([]string, 0, len(registryTypes))
		for id := range registryTypes {
			allIDs = append(allIDs, id)
		}
		sort.Strings(allIDs)
		for _, idhex := range allIDs {
			var id uint32
			fmt.Sscanf(idhex, "%x", &id)
			inf := map[string]interface{}{"name": "registered id " + idhex}
			tail := [][]byte{bytes.Repeat([]byte{0}, 48), bytes.Repeat(word(1), 12), bytes.Repeat(word(0x1cb5c415), 12)}
			for ti, t := range tail {
				run(fmt.Sprintf("every-id-tail%d", ti), append(word(id), t...), nil, inf)
			}
			run("every-id-in-rpc-result", append(append(append(word(0xf35c6d01), word(7)...), word(0)...), append(word(id), bytes.Repeat([]byte{0}, 32)...)...), nil, inf)
		}
		// vector results (decoded with hints): bare and inside rpc_result
		cat := func(ws ...uint32) []byte {
			var b bytes.Buffer
			for _, w := range ws {
				b.Write(word(w))
			}
			return b.Bytes()
		}
		vecBases := map[string][]byte{
			"vector-of-objects":      cat(0x1cb5c415, 2, 0x997275b5, 0xbc799737),
			"vector-of-int":          cat(0x1cb5c415, 3, 1, 2, 3),
			"vector-of-long":         cat(0x1cb5c415, 2, 1, 0, 2, 0),
			"vector-of-vectors":      cat(0x1cb5c415, 2, 0x1cb5c415, 0, 0x1cb5c415, 1, 0x997275b5),
			"rpc-result-vector":      cat(0xf35c6d01, 7, 0, 0x1cb5c415, 2, 0x997275b5, 0xbc799737),
			"rpc-result-vector-ints": cat(0xf35c6d01, 7, 0, 0x1cb5c415, 2, 5, 6),
		}
		vnames := make([]string, 0, len(vecBases))
		for k := range vecBases {
			vnames = append(vnames, k)
		}
		sort.Strings(vnames)
		vrepl := []uint32{0x1cb5c415, 0x997275b5, 0x56730bcc, 0xdeadbeef, 0, 1, 2, 0xffffffff, 0x7fffffff, 0x80000000, 0x40000000, 0x40000001, 0xc0000000, 0x20000000, 0x10000000, structIDs[0], enumIDs[0], 0x3072cfa1, 0x73f1f8dc, 0xf35c6d01}
		for _, name := range vnames {
			base := vecBases[name]
			vinfo := map[string]interface{}{"name": name}
			run(name+"-valid", base, nil, vinfo)
			for l := 0; l < len(base); l += 4 {
				run(name+"-truncated", base[:l], nil, vinfo)
			}
			for w := 0; w < len(base)/4; w++ {
				for _, rv := range vrepl {
					mm := append([]byte{}, base...)
					copy(mm[4*w:], word(rv))
					run(fmt.Sprintf("%s-word%d-%08x", name, w, rv), mm, nil, vinfo)
				}
			}
		}
		// hand-written decoders: containers and gzip
		cont := func(count uint32, items ...[]byte) []byte {
			var b bytes.Buffer
			b.Write(word(0x73f1f8dc))
			b.Write(word(count))
			for _, it := range items {
				b.Write(it)
			}
			return b.Bytes()
		}
		item := func(size uint32, body []byte) []byte {
			var b bytes.Buffer
			b.Write(make([]byte, 8))
			b.Write(word(1))
			b.Write(word(size))
			b.Write(body)
			return b.Bytes()
		}
		pong := append(word(0x347773c5), make([]byte, 16)...)
		info := map[string]interface{}{"name": "msg_container"}
		run("container-valid", cont(1, item(uint32(len(pong)), pong)), nil, info)
		for _, cnt := range []uint32{0xffffffff, 0x7fffffff, 0x80000000, 0x40000000, 0x10000000, 0x01000000, 2, 0} {
			run(fmt.Sprintf("container-count-%x", cnt), cont(cnt, item(uint32(len(pong)), pong)), nil, info)
		}
		for _, sz := range []uint32{0xffffffff, 0x7fffffff, 0x80000000, 0x40000000, 0xfffffff0, 0x01000000, 0, 4, 19} {
			run(fmt.Sprintf("container-size-%x", sz), cont(1, item(sz, pong)), nil, info)
		}
		gz := func(inner []byte, corrupt string) []byte {
			var z bytes.Buffer
			g := gzip.NewWriter(&z)
			g.Write(inner)
			g.Close()
			zb := z.Bytes()
			switch corrupt {
			case "trailer":
				copy(zb[len(zb)-8:], []byte{0xff, 0xff, 0xff, 0xff})
			case "middle":
				zb[len(zb)/2] ^= 0x55
			case "cut":
				zb = zb[:len(zb)-6]
			case "header":
				zb[0] = 0
			case "bomb":
			}
			var b bytes.Buffer
			b.Write(word(0x3072cfa1))
			if len(zb) < 254 {
				b.WriteByte(byte(len(zb)))
				b.Write(zb)
				for (1+len(zb))%4 != 0 && b.Len()%4 != 0 {
					b.WriteByte(0)
				}
			} else {
				b.Write([]byte{254, byte(len(zb)), byte(len(zb) >> 8), byte(len(zb) >> 16)})
				b.Write(zb)
				for b.Len()%4 != 0 {
					b.WriteByte(0)
				}
			}
			return b.Bytes()
		}
		info = map[string]interface{}{"name": "gzip_packed"}
		for _, cor := range []string{"", "trailer", "middle", "cut", "header"} {
			run("gzip-"+cor, gz(pong, cor), nil, info)
			run("gzip-in-rpc-result-"+cor, append(append(word(0xf35c6d01), make([]byte, 8)...), gz(pong, cor)...), nil, info)
		}
		run("gzip-of-garbage", gz(bytes.Repeat([]byte{0xde, 0xad, 0xbe, 0xef}, 64), ""), nil, info)
		run("gzip-of-vector", gz(append(append(word(0x1cb5c415), word(0xffffffff)...), make([]byte, 16)...), ""), nil, info)
		rep.Distinct = len(classes)
		rep.Extra["mutants"] = n
		rep.Extra["classes"] = len(classes)
		out.Flush()
		fmt.Fprintln(out, "REPORT")
		out.Flush()
		rep.Emit()
	}
}

func truncHex(b []byte) []byte {
	if len(b) > 96 {
		return b[:96]
	}
	return b
}
