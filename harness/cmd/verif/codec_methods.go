package main

// `verif methods`: C13 method contracts.  For every function of the API schema TLC
// (spec/TLCodecGen.tla) gives the request image of a call whose arguments are distinguishable by
// position, and an answer of the declared result kind with its image.  The generated
// *telegram.Client method is called by reflection against the reference server: the request the
// server decrypts must equal the image byte for byte, and the method must return the value the
// answer image encodes.

import (
	"bytes"
	"crypto/rand"
	"encoding/json"
	"flag"
	"fmt"
	"os"
	"reflect"
	"strings"
	"sync"
	"sync/atomic"
	"time"

	"github.com/xelaj/mtproto"
	"github.com/xelaj/mtproto/internal/session"
	"github.com/xelaj/mtproto/telegram"
	"github.com/xelaj/mtproto/verifharness/refsrv"
)

type methodCase struct {
	Name    string  `json:"name"`
	IDHex   string  `json:"idhex"`
	Call    *cval   `json:"call"`
	CallImg []chunk `json:"callimg"`
	ResKind string  `json:"reskind"`
	Res     *cval   `json:"res"`
	ResImg  []chunk `json:"resimg"`
	ResAll  []string `json:"resall"`
}

func init() {
	commands["methods"] = func(args []string) {
		fs := flag.NewFlagSet("methods", flag.ExitOnError)
		casesPath := fs.String("cases", "", "")
		keyPath := fs.String("key", "rsa.key", "")
		fs.Parse(args)
		loadRegistry()
		priv := loadOrMakeKey(*keyPath)
		srv, err := refsrv.New(priv)
		must(err)
		key := make([]byte, 256)
		rand.Read(key)
		srv.AddKey(key)
		srv.SetSalt(777)
		var mu sync.Mutex
		var gotBody []byte
		var answer []byte
		rejectOnce := false
		gotCh := make(chan struct{}, 16)
		srv.OnFrame = func(c *refsrv.Conn, f *refsrv.Frame) {
			if !f.KeyIDOK || !f.MsgKeyOK || len(f.Body) < 4 {
				return
			}
			rd := &refsrv.R{B: f.Body}
			if rd.U32() == refsrv.CrcMsgsAck {
				return
			}
			mu.Lock()
			gotBody = append([]byte{}, f.Body...)
			ans := answer
			rej := rejectOnce
			rejectOnce = false
			mu.Unlock()
			if rej {
				// the request is refused once with bad_server_salt: its repetition must be answered like the original
				c.SendEnc(refsrv.BadServerSalt(f.MsgID, f.SeqNo, 777), 2, 3)
				return
			}
			if ans != nil {
				c.SendEnc(refsrv.RpcResult(f.MsgID, ans), 1, 1)
			}
			select {
			case gotCh <- struct{}{}:
			default:
			}
		}
		store := &logStore{log: &sessLog{f: devNull()}}
		store.s = &session.Session{Key: key, Hash: refsrv.KeyID(key), Salt: 777, Hostname: srv.Addr()}
		m, err := mtproto.NewMTProto(mtproto.Config{SessionStorage: store, ServerHost: srv.Addr(), PublicKey: &priv.PublicKey})
		must(err)
		m.Warnings = make(chan error, 256)
		go func() {
			for range m.Warnings {
			}
		}()
		must(m.CreateConnection())
		// for methods with a vector result the sender is held for a moment right after its write, so that the answer is
		// read and dispatched before the sender leaves the send section (a fast server, a descheduled sender)
		var holdSender int32
		mtproto.VerifGate = func(point string, args ...interface{}) {
			if point == "send.written" && atomic.LoadInt32(&holdSender) == 1 {
				time.Sleep(25 * time.Millisecond)
			}
		}
		defer func() { mtproto.VerifGate = nil }()
		client := &telegram.Client{MTProto: m}
		cv := reflect.ValueOf(client)
		rep := NewReport()
		vecSeen := 0
		must(readNDJSON(*casesPath, func(raw json.RawMessage) error {
			var c methodCase
			if err := json.Unmarshal(raw, &c); err != nil {
				return err
			}
			rep.Evaluations++
			info := map[string]interface{}{"function": c.Name, "idhex": c.IDHex}
			pt, ok := registryTypes[c.IDHex]
			if !ok {
				rep.Disagree("C13:function-not-registered:"+c.Name, "no type registered for function "+c.Name, info)
				return nil
			}
			mname := strings.TrimSuffix(strings.TrimPrefix(pt.String(), "*telegram."), "Params")
			mv := cv.MethodByName(mname)
			if !mv.IsValid() {
				rep.Disagree("C13:method-missing:"+c.Name, fmt.Sprintf("no method %s on *telegram.Client for %s", mname, c.Name), info)
				return nil
			}
			info["method"] = mname
			mt := mv.Type()
			var in []reflect.Value
			if mt.NumIn() == 1 && mt.In(0) == pt {
				o, err := buildObject(c.Call)
				if err != nil {
					rep.Disagree("C13:shape:"+c.Name, err.Error(), info)
					return nil
				}
				in = []reflect.Value{o}
			} else {
				if mt.NumIn() != len(c.Call.F) {
					rep.Disagree("C13:argument-count:"+c.Name, fmt.Sprintf("%s takes %d arguments, %s has %d parameters", mname, mt.NumIn(), c.Name, len(c.Call.F)), info)
					return nil
				}
				for i := 0; i < mt.NumIn(); i++ {
					a := reflect.New(mt.In(i)).Elem()
					if err := setField(a, c.Call.F[i], fmt.Sprintf("argument %d", i), pt); err != nil {
						rep.Disagree("C13:argument-type:"+c.Name, fmt.Sprintf("%s: %v", mname, err), info)
						return nil
					}
					in = append(in, a)
				}
			}
			want := render(c.CallImg)
			mu.Lock()
			gotBody = nil
			answer = render(c.ResImg)
			// a server packs what it finds big enough: every other vector answer and every fifth other answer travels gzip_packed
			nvec := 0
			if c.ResKind == "vec" {
				vecSeen++
				nvec = vecSeen
			}
			if (c.ResKind == "vec" && nvec%2 == 0) || (c.ResKind != "vec" && rep.Evaluations%5 == 0) {
				answer = refsrv.Gzip(answer)
				info["answer"] = "gzip_packed"
			}
			// every method with a vector result, and every seventh other one, meets a salt rotation on its first attempt
			rejectOnce = c.ResKind == "vec" || rep.Evaluations%7 == 0
			mu.Unlock()
			if c.ResKind == "vec" {
				atomic.StoreInt32(&holdSender, 1)
			} else {
				atomic.StoreInt32(&holdSender, 0)
			}
			for len(gotCh) > 0 {
				<-gotCh
			}
			type result struct {
				out []reflect.Value
				p   interface{}
			}
			done := make(chan result, 1)
			go func() {
				defer func() {
					if p := recover(); p != nil {
						done <- result{nil, p}
					}
				}()
				done <- result{mv.Call(in), nil}
			}()
			var res result
			select {
			case res = <-done:
			case <-time.After(3 * time.Second):
				rep.Disagree("C13:call-never-returned:"+c.Name, mname+" did not return", info)
				return nil
			}
			mu.Lock()
			got := gotBody
			mu.Unlock()
			if len(rep.Samples) < 3 {
				rep.Sample(map[string]interface{}{"function": c.Name, "method": mname, "request": fmt.Sprintf("%x", truncHex(want))})
			}
			if got == nil {
				rep.Disagree("C13:no-request:"+c.Name, mname+" sent nothing", info)
			} else if !bytes.Equal(got, want) {
				rep.Disagree("C13:request-bytes:"+c.Name, fmt.Sprintf("%s: %s", mname, firstDiff(got, want)), info)
			}
			if res.p != nil {
				rep.Disagree("C13:call-panicked:"+c.Name, fmt.Sprintf("%s: %v", mname, res.p), info)
				return nil
			}
			if e, _ := res.out[1].Interface().(error); e != nil {
				rep.Disagree("C13:call-error:"+c.Name, fmt.Sprintf("%s: %v", mname, e), info)
				return nil
			}
			ret := res.out[0]
			// the declared result type may answer with any of its constructors
			elem := mt.Out(0)
			if c.ResKind == "vec" && elem.Kind() == reflect.Slice {
				elem = elem.Elem()
			}
			for _, id := range c.ResAll {
				if rt, ok := registryTypes[id]; ok && !rt.AssignableTo(elem) {
					rep.Disagree("C13:result-type-narrowed:"+c.Name, fmt.Sprintf("%s returns %v, which cannot hold constructor %s (%v) of the declared result type", mname, mt.Out(0), id, rt), info)
					break
				}
			}
			exp := reflect.New(mt.Out(0)).Elem()
			var berr error
			if c.ResKind == "obj" {
				o, err := buildObject(c.Res)
				berr = err
				if err == nil {
					if !o.Type().AssignableTo(exp.Type()) {
						berr = fmt.Errorf("answer %v is not a %v", o.Type(), exp.Type())
					} else {
						exp.Set(o)
					}
				}
			} else {
				berr = setField(exp, c.Res, "result", pt)
			}
			if berr != nil {
				rep.Disagree("C13:result-kind:"+c.Name, fmt.Sprintf("%s returns %v; the schema's result does not fit: %v", mname, mt.Out(0), berr), info)
				return nil
			}
			if !reflect.DeepEqual(ret.Interface(), exp.Interface()) {
				rep.Disagree("C13:result-value:"+c.Name, fmt.Sprintf("%s returned %s, the answer sent was %s", mname, brief(ret.Interface()), brief(exp.Interface())), info)
			}
			return nil
		}))
		rep.Distinct = rep.Evaluations
		rep.Emit()
	}
}

func devNull() *os.File {
	f, _ := os.OpenFile(os.DevNull, os.O_WRONLY, 0)
	return f
}
