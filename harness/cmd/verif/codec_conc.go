package main

// `verif codecconc`: C01 / C02 / C15 under concurrency.  The codec is a function of its argument: a value serialised (an
// image decoded) for the first time in a process, by several goroutines at the same instant, gives what the
// specification says - whoever comes first.  Every child process takes a slice of the case set, so that each type meets
// its first use inside a spin barrier.

import (
	"bytes"
	"encoding/json"
	"flag"
	"fmt"
	"reflect"
	"runtime"
)

func init() {
	commands["codecconc"] = func(args []string) {
		fs := flag.NewFlagSet("codecconc", flag.ExitOnError)
		casesPath := fs.String("cases", "", "")
		children := fs.Int("children", 0, "")
		child := fs.Int("child", -1, "")
		per := fs.Int("per", 60, "cases per child")
		fs.Parse(args)
		if *child < 0 {
			rep := runChildren(*children, []string{"codecconc", "-cases", *casesPath, "-per", fmt.Sprint(*per)},
				"codec:process-died:first-use-under-concurrency", "goroutines serialising / decoding values of a type for the first time in the process", "internal/encoding/tl")
			rep.Emit()
			return
		}
		loadRegistry()
		ng := runtime.NumCPU()
		if ng > 8 {
			ng = 8
		}
		if ng < 2 {
			ng = 2
		}
		rep := NewReport()
		var cases []codecCase
		idx := 0
		must(readNDJSON(*casesPath, func(raw json.RawMessage) error {
			idx++
			// interleaved slices: child k takes cases k, k+children', ... of the plain patterns
			var c codecCase
			if err := json.Unmarshal(raw, &c); err != nil {
				return err
			}
			if c.TooLarge || c.Pat == "wrapper" || c.Pat == "gzip" || c.Val == nil || maxLen(c.Val) > 4096 {
				return nil
			}
			if (idx+*child*7919)%97 < 3 && len(cases) < *per {
				cases = append(cases, c)
			}
			return nil
		}))
		for _, c := range cases {
			val, err := buildObject(c.Val)
			if err != nil {
				continue
			}
			iv := val.Interface()
			want := render(c.Img)
			info := map[string]interface{}{"name": c.Name, "pat": c.Pat}
			outs := make([][]byte, ng)
			errs := make([]error, ng)
			spinTogether(ng, func(i int) { outs[i], errs[i] = safeMarshal(iv) })
			rep.Evaluations++
			for i := range outs {
				if errs[i] != nil || !bytes.Equal(outs[i], want) {
					rep.Disagree("codec:first-use-under-concurrency:marshal", fmt.Sprintf("%s (%s): one of %d goroutines serialising this value at the same instant (first use of the type in the process) got err=%v %s",
						c.Name, c.Pat, ng, errs[i], firstDiff(outs[i], want)), info)
					break
				}
			}
			decs := make([]interface{}, ng)
			spinTogether(ng, func(i int) { decs[i], errs[i] = safeDecodeUnknown(want) })
			for i := range decs {
				if errs[i] != nil || !reflect.DeepEqual(decs[i], iv) {
					rep.Disagree("codec:first-use-under-concurrency:decode", fmt.Sprintf("%s (%s): one of %d goroutines decoding the schema image at the same instant got err=%v %s",
						c.Name, c.Pat, ng, errs[i], brief(decs[i])), info)
					break
				}
			}
		}
		rep.Distinct = len(cases)
		rep.Emit()
	}
}
