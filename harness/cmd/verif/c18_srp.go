package main

// C18: the SRP answer of telegram.GetInputCheckPassword checked by the specification's *server side*
// (spec/SRPGen.tla, interpreted with math/big, SHA-256, PBKDF2): the answer for the right password
// must be accepted, the answer for another password rejected; leading-zero corners of A, B, S are
// forced (B by the server secret, A and S by the client secret through hook VerifSRPAnswer).

import (
	"bytes"
	"encoding/json"
	"flag"
	"fmt"
	"math/big"
	"math/rand"
	"strings"
	"sync"

	"github.com/xelaj/mtproto/telegram"
	"github.com/xelaj/mtproto/verifharness/refsrv"
	"github.com/xelaj/mtproto/verifharness/term"
)

var seqSame bool

// RFC 3526, 2048-bit MODP group (id 14): 2^2048 - 2^1984 - 1 + 2^64 * ([2^1918 pi] + 124476)
const rfc3526Group14 = `
FFFFFFFF FFFFFFFF C90FDAA2 2168C234 C4C6628B 80DC1CD1 29024E08 8A67CC74 020BBEA6 3B139B22 514A0879 8E3404DD
EF9519B3 CD3A431B 302B0A6D F25F1437 4FE1356D 6D51C245 E485B576 625E7EC6 F44C42E9 A637ED6B 0BFF5CB6 F406B7ED
EE386BFB 5A899FA5 AE9F2411 7C4B1FE6 49286651 ECE45B3D C2007CB8 A163BF05 98DA4836 1C55D39A 69163FA8 FD24CF5F
83655D23 DCA3AD96 1C62F356 208552BB 9ED52907 7096966D 670C354E 4ABC9804 F1746C08 CA18217C 32905E46 2E36CE3B
E39E772C 180E8603 9B2783A2 EC07A28F B5C55DF0 6F4C52C9 DE2BCBF6 95581718 3995497C EA956AE5 15D22618 98FA0510
15728E5A 8AACAA68 FFFFFFFF FFFFFFFF`

func srpPassword(class string, rng *rand.Rand) string {
	switch class {
	case "multibyte":
		return "пароль-密码-🔑" + fmt.Sprint(rng.Intn(1000))
	case "long":
		return strings.Repeat("correct horse battery staple ", 20) + fmt.Sprint(rng.Intn(1000))
	case "huge":
		return strings.Repeat("correct horse battery staple ", 52) + fmt.Sprint(rng.Intn(1000)) + " and its very end"
	case "spaced":
		return []string{" ", "\t", "\u00a0", "\u3000"}[rng.Intn(4)] + "pass word" + fmt.Sprint(rng.Intn(1000)) + []string{" ", "\n", "\r\n", "\u2003"}[rng.Intn(4)]
	case "blank":
		return strings.Repeat(" ", 1+rng.Intn(3)) + []string{"", "\t", "\u00a0"}[rng.Intn(3)]
	}
	return "hunter" + fmt.Sprint(rng.Intn(100000))
}

func init() {
	commands["srp"] = func(args []string) {
		fs := flag.NewFlagSet("srp", flag.ExitOnError)
		casesPath := fs.String("cases", "", "")
		seed := fs.Int64("seed", 1, "")
		fs.Parse(args)
		rep := NewReport()
		// the groups of the case set: Telegram's prime and the 2048-bit safe prime of RFC 3526 (group 14)
		rfc3526, _ := new(big.Int).SetString(strings.Join(strings.Fields(rfc3526Group14), ""), 16)
		if rfc3526 == nil || rfc3526.BitLen() != 2048 || !rfc3526.ProbablyPrime(16) || !new(big.Int).Rsh(rfc3526, 1).ProbablyPrime(16) {
			must(fmt.Errorf("the second group's modulus is not a 2048-bit safe prime"))
		}
		primes := map[string]*big.Int{"tg": refsrv.DHPrime, "rfc3526": rfc3526}
		var mu sync.Mutex
		var wg sync.WaitGroup
		sem := make(chan struct{}, 16)
		disagree := func(sig, detail string, c interface{}) { mu.Lock(); rep.Disagree(sig, detail, c); mu.Unlock() }
		var raws []json.RawMessage
		must(readNDJSON(*casesPath, func(raw json.RawMessage) error { raws = append(raws, raw); return nil }))
		one := func(idx int, raw json.RawMessage) error {
			rng := rand.New(rand.NewSource(*seed*1000 + int64(idx)))
			c, err := parseTermCase(raw)
			if err != nil {
				return err
			}
			mu.Lock()
			rep.Evaluations++
			mu.Unlock()
			env := term.NewEnv(rng)
			pwClass := c.Str("pw")
			if pwClass == "" {
				pwClass = "ascii"
			}
			password := srpPassword(pwClass, rng)
			grp := c.Str("group")
			if grp == "" {
				grp = "tg:3"
			}
			gp := strings.SplitN(grp, ":", 2)
			p := primes[gp[0]]
			if p == nil {
				return fmt.Errorf("unknown group %q", grp)
			}
			pBytes := p.Bytes()
			var g int32
			fmt.Sscan(gp[1], &g)
			if seqSame { // the sequential tail: one password, salts by length only
				password = "one and the same password"
			}
			s1n, s2n := c.Int("salt1"), c.Int("salt2")
			if c.Kind != "right-and-wrong" {
				s1n, s2n = 8, 8
			}
			salt1, salt2 := randBytes(rng, s1n), randBytes(rng, s2n)
			if seqSame {
				salt1 = bytes.Repeat([]byte{0x5a}, s1n) // equal first salts for equal lengths; the second salt differs from case to case
			}
			if idx%2 == 1 {
				// the parameters as one decoder would hand them over: slices of one buffer, each with the others behind it
				// within its capacity (the caller's parameters are not the client's scratch space)
				blob := append(append(append([]byte{}, salt1...), salt2...), pBytes...)
				salt1, salt2, pBytes = blob[:s1n], blob[s1n:s1n+s2n], blob[s1n+s2n:]
			}
			salt1Copy, salt2Copy, pCopy := append([]byte{}, salt1...), append([]byte{}, salt2...), append([]byte{}, pBytes...)
			defer func() {
				if !bytes.Equal(salt1, salt1Copy) || !bytes.Equal(salt2, salt2Copy) || !bytes.Equal(pBytes, pCopy) {
					disagree("C18:parameters-modified", "salt1 / salt2 / p handed to the client were changed by it", map[string]interface{}{"case": idx})
				}
			}()
			env.Vars["password"], env.Vars["salt1"], env.Vars["salt2"] = term.Bytes([]byte(password)), term.Bytes(salt1), term.Bytes(salt2)
			env.Vars["p"], env.Vars["g"] = term.Bytes(pBytes), term.Int64(int64(g))
			small := func() *big.Int { return new(big.Int).SetBytes(randBytes(rng, 8)) }
			b := new(big.Int).SetBytes(randBytes(rng, 32))
			env.Vars["b"] = term.Int(b)
			// v first (needs the PBKDF2), then B
			var defs [][]json.RawMessage
			json.Unmarshal(c.Raw["defs"], &defs)
			evalDef := func(name string) term.Val {
				for _, d := range defs {
					var n string
					json.Unmarshal(d[0], &n)
					if n == name {
						t, err := term.Parse(d[1])
						must(err)
						v, err := env.Eval(t)
						must(err)
						env.Vars[name] = v
						return v
					}
				}
				must(fmt.Errorf("no def %s", name))
				return term.Val{}
			}
			v := evalDef("v")
			corner, lz := c.Str("corner"), c.Int("lz")
			cls := fmt.Sprintf("%s:corner=%s:lz=%d:pw=%s:salts=%d,%d:group=%s", c.Kind, corner, lz, pwClass, s1n, s2n, grp)
			info := map[string]interface{}{"class": cls, "password": password, "salt1": fmt.Sprintf("%x", salt1), "salt2": fmt.Sprintf("%x", salt2), "seed": *seed}
			B := evalDef("B")
			if corner == "B" {
				for leadingZeros(B.N.Bytes(), 256) != lz {
					b = small()
					env.Vars["b"] = term.Int(b)
					B = evalDef("B")
				}
			}
			srpB := refsrv.LeftPad(B.N.Bytes(), 256)
			algo := &telegram.PasswordKdfAlgoSHA256SHA256PBKDF2HMACSHA512iter100000SHA256ModPow{Salt1: salt1, Salt2: salt2, G: g, P: pBytes}
			switch c.Kind {
			case "empty-password":
				var out telegram.InputCheckPasswordSRP
				var e error
				pn := recoverTo(func() { out, e = telegram.GetInputCheckPassword("", &telegram.AccountPassword{CurrentAlgo: algo, SRPB: srpB, SRPID: 5}) })
				if pn != nil || e != nil {
					disagree("C18:empty-password", fmt.Sprintf("empty password: panic=%v err=%v", pn, e), info)
				} else if _, ok := out.(*telegram.InputCheckPasswordEmpty); !ok {
					disagree("C18:empty-password", fmt.Sprintf("empty password gave %T, not the 'no password' answer", out), info)
				}
				return nil
			case "bad-B":
				var bad []byte
				switch c.Str("b") {
				case "zero":
					bad = make([]byte, 256)
				case "p":
					bad = refsrv.LeftPad(pBytes, 256)
				case "p+1":
					bad = refsrv.LeftPad(new(big.Int).Add(p, big.NewInt(1)).Bytes(), 256)
				case "short":
					bad = srpB[256-100:]
					bad[0] |= 1
				case "long":
					bad = append([]byte{1}, srpB...)
				}
				cls = "bad-B:" + c.Str("b")
				info["class"] = cls
				var out telegram.InputCheckPasswordSRP
				var e error
				pn := recoverTo(func() { out, e = telegram.GetInputCheckPassword(password, &telegram.AccountPassword{CurrentAlgo: algo, SRPB: bad, SRPID: 5}) })
				if pn != nil {
					disagree("C18:"+cls, fmt.Sprintf("server value B=%s: panic %v", c.Str("b"), pn), info)
				} else if e == nil {
					disagree("C18:"+cls, fmt.Sprintf("server value B=%s was not refused (answer %T)", c.Str("b"), out), info)
				}
				return nil
			}
			// right-and-wrong: the client's answer for the right password and for another one
			answer := func(pw string, aSecret []byte) (A, M1 []byte, err error) {
				if aSecret != nil {
					return telegram.VerifSRPAnswer(pw, srpB, salt1, salt2, g, pBytes, aSecret)
				}
				out, e := telegram.GetInputCheckPassword(pw, &telegram.AccountPassword{CurrentAlgo: algo, SRPB: srpB, SRPID: 5})
				if e != nil {
					return nil, nil, e
				}
				o, ok := out.(*telegram.InputCheckPasswordSRPObj)
				if !ok {
					return nil, nil, fmt.Errorf("answer is %T", out)
				}
				return o.A, o.M1, nil
			}
			var aSecret []byte
			if corner == "A" || corner == "S" {
				// choose the client secret so that A (resp. the shared secret S) has lz leading zero bytes
				for tries := 0; ; tries++ {
					a := small()
					A := new(big.Int).Exp(big.NewInt(int64(g)), a, p)
					ok := leadingZeros(A.Bytes(), 256) == lz
					if corner == "S" {
						env.Vars["A"] = term.Bytes(refsrv.LeftPad(A.Bytes(), 256))
						sv, err := env.Eval(c.Term("s"))
						must(err)
						ok = leadingZeros(sv.N.Bytes(), 256) == lz
					}
					if ok {
						aSecret = refsrv.LeftPad(a.Bytes(), 256)
						break
					}
				}
			}
			check := func(pw string) (bool, string) {
				var A, M1 []byte
				var e error
				if pn := recoverTo(func() { A, M1, e = answer(pw, aSecret) }); pn != nil {
					return false, fmt.Sprintf("panic: %v", pn)
				}
				if e != nil {
					return false, "error: " + e.Error()
				}
				if len(A) != 256 || len(M1) != 32 {
					return false, fmt.Sprintf("A has %d bytes, M1 %d", len(A), len(M1))
				}
				env.Vars["A"] = term.Bytes(A)
				want, err := env.Eval(c.Term("m1"))
				must(err)
				return bytes.Equal(want.B, M1), ""
			}
			mu.Lock()
			rep.Sample(info)
			mu.Unlock()
			if ok, why := check(password); !ok {
				disagree("C18:right-password-rejected:"+cls, "the server side of the specification rejects the answer for the right password "+why, info)
			}
			if seqSame { // nothing between this computation and the next one with the same password and first salt
				return nil
			}
			other := password + "x"
			if rng.Intn(2) == 0 {
				other = strings.ToUpper(password)
			}
			switch pwClass {
			case "spaced": // the same characters without the surrounding white space are another password
				other = strings.TrimSpace(password)
			case "blank":
				other = password + " "
			}
			if ok, _ := check(other); ok {
				disagree("C18:wrong-password-accepted:"+cls, fmt.Sprintf("the answer computed for %q is accepted for the password %q", other, password), info)
			}
			_ = v
			return nil
		}
		for i, raw := range raws {
			wg.Add(1)
			sem <- struct{}{}
			go func(i int, raw json.RawMessage) {
				defer wg.Done()
				defer func() { <-sem }()
				must(one(i, raw))
			}(i, raw)
		}
		wg.Wait()
		// one account after another in one process, the computations one at a time: the same password and first salt with
		// another second salt (and back), another password with the same salts - nothing is carried over from a
		// computation to the next
		seqSame = true
		for round := 0; round < 2; round++ {
			for i, raw := range raws {
				var probe struct {
					Kind   string `json:"kind"`
					Corner string `json:"corner"`
					Pw     string `json:"pw"`
				}
				json.Unmarshal(raw, &probe)
				if probe.Kind == "right-and-wrong" && probe.Corner == "none" && probe.Pw == "ascii" {
					must(one(i, raw))
				}
			}
		}
		rep.Distinct = rep.Evaluations
		rep.Emit()
	}
}
