package main

// `verif codec`: C01 / C02.  Cases come from TLC (spec/TLCodecGen.tla): a value descriptor and
// the byte image the schema prescribes for it.  The Go value is built by reflection, field by
// position, on the type registered under the constructor id; then
//   C02  tl.Marshal(value) == image, byte for byte (or an error when the format cannot carry it);
//        tl.DecodeUnknownObject(image) == value
//   C01  Marshal twice gives identical bytes; decoding the Marshal output - into the named type and
//        as an unknown object - gives back the value.

import (
	"bytes"
	"compress/gzip"
	"io/ioutil"
	"encoding/binary"
	"encoding/json"
	"flag"
	"fmt"
	"math"
	"math/big"
	"reflect"
	"strings"

	"github.com/xelaj/mtproto/internal/encoding/tl"
	"github.com/xelaj/mtproto/internal/mtproto/messages"
	"github.com/xelaj/mtproto/internal/mtproto/objects"
	"github.com/xelaj/mtproto/telegram"
)

type cval struct {
	K     string  `json:"k"`
	C     string  `json:"c"`
	Len   int     `json:"len"`
	Tag   int     `json:"tag"`
	B     bool    `json:"b"`
	IDHex string  `json:"idhex"`
	F     []*cval `json:"f"`
	E     []*cval `json:"e"`
	W     int     `json:"w"`
	LZ    int     `json:"lz"`
	N     int     `json:"n"`
	// hand-written MTProto codecs: container items, inner object of rpc_result / gzip_packed
	Items   []*citem `json:"items"`
	Obj     *cval    `json:"obj"`
	ObjImg  []chunk  `json:"objimg"`
}

type citem struct {
	N       int     `json:"n"`
	Seq     int32   `json:"seq"`
	Body    *cval   `json:"body"`
	BodyImg []chunk `json:"bodyimg"`
}

type chunk struct {
	T   string `json:"t"`
	V   []int  `json:"v"`
	Len int    `json:"len"`
	Tag int    `json:"tag"`
	N   int    `json:"n"`
	LZ  int    `json:"lz"`
}

type codecCase struct {
	Name     string  `json:"name"`
	IDHex    string  `json:"idhex"`
	Pat      string  `json:"pat"`
	Val      *cval   `json:"val"`
	TooLarge bool    `json:"toolarge"`
	Img      []chunk `json:"img"`
}

func payload(n, tag int) []byte {
	b := make([]byte, n)
	for i := range b {
		b[i] = byte(0x21 + (tag*13+i*7+(i>>8)*3)%90)
	}
	return b
}

func render(img []chunk) []byte {
	var out bytes.Buffer
	for _, c := range img {
		switch c.T {
		case "w":
			out.Write([]byte{byte(c.V[0]), byte(c.V[0] >> 8), byte(c.V[1]), byte(c.V[1] >> 8)})
		case "q":
			for _, h := range c.V {
				out.Write([]byte{byte(h), byte(h >> 8)})
			}
		case "b":
			for _, x := range c.V {
				out.WriteByte(byte(x))
			}
		case "p":
			out.Write(payload(c.Len, c.Tag))
		case "z":
			out.Write(make([]byte, c.N))
		case "be":
			out.Write(make([]byte, c.LZ))
			out.Write(payload(c.Len-c.LZ, c.Tag))
		}
	}
	return out.Bytes()
}

var int32Class = map[string]int32{"zero": 0, "one": 1, "minus1": -1, "max": math.MaxInt32, "min": math.MinInt32, "pat": 0x01020304}
var int64Class = map[string]int64{"zero": 0, "one": 1, "minus1": -1, "max": math.MaxInt64, "min": math.MinInt64, "pat": 0x0102030405060708}
var doubleClass = map[string]float64{"zero": 0, "one": 1, "minus1": -1, "max": math.MaxFloat64, "min": math.SmallestNonzeroFloat64, "pat": math.Pi}

type shapeError struct{ msg string }

func (e shapeError) Error() string { return e.msg }

var registryTypes map[string]reflect.Type

func loadRegistry() {
	if registryTypes != nil {
		return
	}
	objs, _ := tl.VerifRegistry()
	registryTypes = map[string]reflect.Type{}
	for crc, t := range objs {
		registryTypes[fmt.Sprintf("%08x", crc)] = t
	}
	// the hand-written generic request wrappers are not registered (they are only sent); the harness
	// knows which schema line each of them stands for
	for id, o := range wrapperTypes {
		if _, ok := registryTypes[id]; !ok {
			registryTypes[id] = reflect.TypeOf(o)
		}
	}
}

var wrapperTypes = map[string]tl.Object{
	"c1cd5ea9": &telegram.InitConnectionParams{},
	"da9b0d0d": &telegram.InvokeWithLayerParams{},
	"aca9fd2e": &telegram.InvokeWithTakeoutParams{},
}

func specMsgID(n int) int64 { return int64(11)<<48 | int64(4*(500+n)) }

// buildSpecial builds the values of the hand-written codecs
func buildSpecial(v *cval) (reflect.Value, error) {
	switch v.K {
	case "container":
		c := objects.MessageContainer{}
		for _, it := range v.Items {
			c = append(c, &messages.Encrypted{MsgID: specMsgID(it.N), SeqNo: it.Seq, Msg: render(it.BodyImg)})
		}
		return reflect.ValueOf(&c), nil
	case "rpcresult":
		o, err := buildObject(v.Obj)
		if err != nil {
			return reflect.Value{}, err
		}
		return reflect.ValueOf(&objects.RpcResult{ReqMsgID: specMsgID(v.N), Obj: o.Interface().(tl.Object)}), nil
	case "gzip":
		o, err := buildObject(v.Obj)
		if err != nil {
			return reflect.Value{}, err
		}
		return reflect.ValueOf(&objects.GzipPacked{Obj: o.Interface().(tl.Object)}), nil
	}
	return reflect.Value{}, shapeError{"unknown special kind " + v.K}
}

// buildObject builds the Go value registered under v.IDHex from the descriptor
func buildObject(v *cval) (reflect.Value, error) {
	if v.K == "container" || v.K == "rpcresult" || v.K == "gzip" {
		return buildSpecial(v)
	}
	rt, ok := registryTypes[v.IDHex]
	if !ok {
		return reflect.Value{}, shapeError{"constructor " + v.IDHex + " is not registered"}
	}
	if rt.Kind() == reflect.Uint32 { // enum value
		var crc uint64
		fmt.Sscanf(v.IDHex, "%x", &crc)
		return reflect.ValueOf(uint32(crc)).Convert(rt), nil
	}
	if rt.Kind() != reflect.Ptr || rt.Elem().Kind() != reflect.Struct {
		return reflect.Value{}, shapeError{fmt.Sprintf("registered type %v of %s is neither a struct pointer nor an enum", rt, v.IDHex)}
	}
	st := rt.Elem()
	if st.NumField() != len(v.F) {
		return reflect.Value{}, shapeError{fmt.Sprintf("%v has %d fields, the schema line has %d parameters", rt, st.NumField(), len(v.F))}
	}
	p := reflect.New(st)
	for i, fv := range v.F {
		if err := setField(p.Elem().Field(i), fv, st.Field(i).Name, rt); err != nil {
			return reflect.Value{}, err
		}
	}
	return p, nil
}

func setField(f reflect.Value, v *cval, name string, owner reflect.Type) error {
	bad := func() error {
		return shapeError{fmt.Sprintf("%v.%s is a %v, the schema parameter at this position is a %s", owner, name, f.Type(), v.K)}
	}
	switch v.K {
	case "absent":
		return nil
	case "int":
		if f.Kind() != reflect.Int32 {
			return bad()
		}
		if v.C == "pos" {
			f.SetInt(int64(7<<16 | (1000 + v.N)))
		} else {
			f.SetInt(int64(int32Class[v.C]))
		}
	case "long":
		if f.Kind() != reflect.Int64 {
			return bad()
		}
		if v.C == "pos" {
			f.SetInt(int64(11)<<48 | int64(2000+v.N))
		} else {
			f.SetInt(int64Class[v.C])
		}
	case "double":
		if f.Kind() != reflect.Float64 {
			return bad()
		}
		f.SetFloat(doubleClass[v.C])
	case "str":
		if f.Kind() != reflect.String {
			return bad()
		}
		f.SetString(string(payload(v.Len, v.Tag)))
	case "bytes":
		if f.Kind() != reflect.Slice || f.Type().Elem().Kind() != reflect.Uint8 {
			return bad()
		}
		f.SetBytes(payload(v.Len, v.Tag))
	case "bool", "true":
		if f.Kind() != reflect.Bool {
			return bad()
		}
		f.SetBool(v.B)
	case "big":
		n := new(big.Int).SetBytes(append(make([]byte, v.LZ), payload(v.W-v.LZ, v.Tag)...))
		switch f.Type() {
		case tInt128:
			f.Set(reflect.ValueOf(&tl.Int128{Int: n}))
		case tInt256:
			f.Set(reflect.ValueOf(&tl.Int256{Int: n}))
		default:
			return bad()
		}
	case "obj":
		o, err := buildObject(v)
		if err != nil {
			return err
		}
		if !o.Type().AssignableTo(f.Type()) {
			return shapeError{fmt.Sprintf("%v.%s is a %v; the schema puts a %v (%s) there", owner, name, f.Type(), o.Type(), v.IDHex)}
		}
		f.Set(o)
	case "vec":
		if f.Kind() != reflect.Slice || f.Type().Elem().Kind() == reflect.Uint8 {
			return bad()
		}
		s := reflect.MakeSlice(f.Type(), len(v.E), len(v.E))
		for i, e := range v.E {
			if err := setField(s.Index(i), e, fmt.Sprintf("%s[%d]", name, i), owner); err != nil {
				return err
			}
		}
		f.Set(s)
	default:
		return shapeError{"unknown value kind " + v.K}
	}
	return nil
}

// scribble overwrites a buffer the way a caller does that reuses its receive buffer for the next packet
func scribble(b []byte) {
	for i := range b {
		b[i] = 0xA5
	}
}

func safeMarshal(v interface{}) (b []byte, err error) {
	defer func() {
		if p := recover(); p != nil {
			err = fmt.Errorf("panic: %v", p)
		}
	}()
	return tl.Marshal(v)
}

func safeDecodeUnknown(b []byte, hints ...reflect.Type) (o interface{}, err error) {
	defer func() {
		if p := recover(); p != nil {
			err = fmt.Errorf("panic: %v", p)
		}
	}()
	return tl.DecodeUnknownObject(b, hints...)
}

func safeDecodeInto(b []byte, t reflect.Type) (o interface{}, err error) {
	defer func() {
		if p := recover(); p != nil {
			err = fmt.Errorf("panic: %v", p)
		}
	}()
	if t.Kind() != reflect.Ptr {
		p := reflect.New(t)
		err = tl.Decode(b, p.Interface())
		return p.Elem().Interface(), err
	}
	p := reflect.New(t.Elem())
	err = tl.Decode(b, p.Interface())
	return p.Interface(), err
}

func checkGzipImage(got, inner []byte) error {
	if len(got) < 8 || binary.LittleEndian.Uint32(got) != 0x3072cfa1 {
		return fmt.Errorf("Marshal output does not start with the id of gzip_packed")
	}
	d, err := tl.NewDecoder(bytes.NewReader(got[4:]))
	if err != nil {
		return err
	}
	packed := d.PopMessage()
	if err := d.CheckErr(); err != nil {
		return fmt.Errorf("packed_data is not a TL byte string: %v", err)
	}
	zr, err := gzip.NewReader(bytes.NewReader(packed))
	if err != nil {
		return fmt.Errorf("packed_data is not a gzip stream: %v", err)
	}
	plain, err := ioutil.ReadAll(zr)
	if err != nil {
		return fmt.Errorf("packed_data does not unpack: %v", err)
	}
	if !bytes.Equal(plain, inner) {
		return fmt.Errorf("unpacked data is not the serialisation of the inner object: %s", firstDiff(plain, inner))
	}
	return nil
}

func firstDiff(a, b []byte) string {
	n := len(a)
	if len(b) < n {
		n = len(b)
	}
	for i := 0; i < n; i++ {
		if a[i] != b[i] {
			lo, hi := i-8, i+12
			if lo < 0 {
				lo = 0
			}
			ha, hb := hi, hi
			if ha > len(a) {
				ha = len(a)
			}
			if hb > len(b) {
				hb = len(b)
			}
			return fmt.Sprintf("first difference at byte %d: code ...%x... specification ...%x... (lengths %d / %d)", i, a[lo:ha], b[lo:hb], len(a), len(b))
		}
	}
	return fmt.Sprintf("one is a prefix of the other (lengths %d / %d)", len(a), len(b))
}

func init() {
	commands["codec"] = func(args []string) {
		fs := flag.NewFlagSet("codec", flag.ExitOnError)
		casesPath := fs.String("cases", "", "")
		fs.Parse(args)
		loadRegistry()
		rep := NewReport()
		c01 := 0
		seen := map[string]bool{}
		must(readNDJSON(*casesPath, func(raw json.RawMessage) error {
			var c codecCase
			if err := json.Unmarshal(raw, &c); err != nil {
				return err
			}
			rep.Evaluations++
			seen[c.IDHex] = true
			info := map[string]interface{}{"name": c.Name, "idhex": c.IDHex, "pat": c.Pat, "val": c.Val}
			if len(rep.Samples) < 4 && rep.Evaluations%997 == 1 {
				rep.Sample(map[string]interface{}{"name": c.Name, "pat": c.Pat, "val": c.Val, "img": c.Img})
			}
			cls := c.Pat
			if _, ok := registryTypes[c.IDHex]; !ok && c.Pat == "wrapper" {
				return nil // a wrapper without a Go type: reported by the structural comparison (C13)
			}
			val, err := buildObject(c.Val)
			if err != nil {
				rep.Disagree("C02:shape:"+c.Name, err.Error(), info)
				return nil
			}
			iv := val.Interface()
			got, merr := safeMarshal(iv)
			gotCopy := append([]byte{}, got...) // what Marshal returned, before anything else is marshalled
			if c.TooLarge {
				if merr == nil {
					rep.Disagree("C02:too-large-not-refused:"+cls, fmt.Sprintf("%s: a %d-byte string was written (%d bytes out) instead of being refused", c.Name, maxLen(c.Val), len(got)), info)
				}
				return nil
			}
			if merr != nil {
				rep.Disagree("C02:marshal-error:"+cls, fmt.Sprintf("%s (%s): Marshal failed: %v", c.Name, c.Pat, merr), info)
				// a value that cannot be serialised cannot make the trip either
				rep.Disagree("C01:marshal-error:"+cls, fmt.Sprintf("%s (%s): Marshal failed: %v", c.Name, c.Pat, merr), info)
				return nil
			}
			want := render(c.Img)
			if c.Pat == "gzip" {
				// the compressed bytes are not fixed: constructor id, then a TL byte string holding a gzip stream
				// of the inner object's schema image
				if err := checkGzipImage(got, render(c.Val.ObjImg)); err != nil {
					rep.Disagree("C02:bytes-differ:"+cls, fmt.Sprintf("%s: %v", c.Name, err), info)
				}
				want = got
			}
			if !bytes.Equal(got, want) {
				if c.Pat == "wrapper" {
					rep.Disagree("C13:wrapper-bytes:"+c.Name, fmt.Sprintf("request wrapper %s: %s", c.Name, firstDiff(got, want)), info)
				} else {
					rep.Disagree("C02:bytes-differ:"+cls, fmt.Sprintf("%s (%s): %s", c.Name, c.Pat, firstDiff(got, want)), info)
				}
			}
			if c.Pat == "wrapper" {
				return nil // request wrappers are only ever sent
			}
			// reference-built bytes decode to the value
			wantBuf := append([]byte{}, want...)
			if o, err := safeDecodeUnknown(wantBuf); err != nil {
				rep.Disagree("C02:reference-bytes-not-decoded:"+cls, fmt.Sprintf("%s (%s): %v", c.Name, c.Pat, err), info)
			} else if !reflect.DeepEqual(o, iv) {
				rep.Disagree("C02:reference-bytes-decode-differently:"+cls, fmt.Sprintf("%s (%s): decoded %s", c.Name, c.Pat, brief(o)), info)
			} else if scribble(wantBuf); !reflect.DeepEqual(o, iv) {
				// the caller's receive buffer is the caller's: what was decoded from it must not change when it is reused
				rep.Disagree("C02:decoded-value-aliases-input:"+cls, fmt.Sprintf("%s (%s): the decoded value changed when the input buffer was overwritten afterwards", c.Name, c.Pat), info)
			}
			// C01: determinism and round trip of the code's own bytes
			c01++
			again, _ := safeMarshal(iv)
			if !bytes.Equal(got, again) {
				rep.Disagree("C01:marshal-not-deterministic:"+cls, c.Name+": two Marshal calls gave different bytes", info)
			}
			gotBuf := append([]byte{}, got...)
			if o, err := safeDecodeUnknown(gotBuf); err != nil {
				rep.Disagree("C01:round-trip-error:"+cls, fmt.Sprintf("%s (%s): DecodeUnknownObject(Marshal(v)): %v", c.Name, c.Pat, err), info)
			} else if !reflect.DeepEqual(o, iv) {
				rep.Disagree("C01:round-trip-differs:"+cls, fmt.Sprintf("%s (%s): DecodeUnknownObject(Marshal(v)) = %s", c.Name, c.Pat, brief(o)), info)
			} else if scribble(gotBuf); !reflect.DeepEqual(o, iv) {
				rep.Disagree("C01:decoded-value-aliases-input:"+cls, fmt.Sprintf("%s (%s): the value DecodeUnknownObject returned changed when the input buffer was overwritten afterwards", c.Name, c.Pat), info)
			}
			if val.Kind() == reflect.Ptr { // named type
				gotBuf2 := append([]byte{}, got...)
				if o, err := safeDecodeInto(gotBuf2, val.Type()); err != nil {
					rep.Disagree("C01:round-trip-error-named:"+cls, fmt.Sprintf("%s (%s): Decode(Marshal(v)): %v", c.Name, c.Pat, err), info)
				} else if !reflect.DeepEqual(o, iv) {
					rep.Disagree("C01:round-trip-differs-named:"+cls, fmt.Sprintf("%s (%s): Decode(Marshal(v)) = %s", c.Name, c.Pat, brief(o)), info)
				} else if scribble(gotBuf2); !reflect.DeepEqual(o, iv) {
					rep.Disagree("C01:decoded-value-aliases-input-named:"+cls, fmt.Sprintf("%s (%s): the value Decode filled in changed when the input buffer was overwritten afterwards", c.Name, c.Pat), info)
				}
			}
			// the bytes the code returned must not be disturbed by a later Marshal of another value
			other, _ := safeMarshal(&tl.PseudoTrue{})
			_ = other
			if !bytes.Equal(got, gotCopy) || !bytes.Equal(again, gotCopy) {
				rep.Disagree("C01:marshal-output-aliased:"+cls, c.Name+": Marshal output changed after a later Marshal call", info)
				// ... and what the caller holds is then no longer the schema's serialisation of its value
				rep.Disagree("C02:bytes-changed-after-later-marshal:"+cls, c.Name+": the bytes Marshal returned were the schema image, and are not any more after another value was serialised", info)
			}
			return nil
		}))
		rep.Distinct = len(seen)
		rep.Extra["constructors"] = len(seen)
		rep.Extra["round_trips"] = c01
		rep.Emit()
	}
}

func maxLen(v *cval) int {
	m := v.Len
	for _, x := range v.F {
		if n := maxLen(x); n > m {
			m = n
		}
	}
	for _, x := range v.E {
		if n := maxLen(x); n > m {
			m = n
		}
	}
	return m
}

func brief(o interface{}) string {
	s := fmt.Sprintf("%+v", o)
	if len(s) > 300 {
		s = s[:300] + "..."
	}
	return strings.ReplaceAll(s, "\n", " ")
}

var _ = binary.LittleEndian
