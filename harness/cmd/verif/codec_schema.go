package main

// `verif schema`: an independent lexer for .tl schema files (no code from /repo): every
// definition line becomes a record of tokens and code points.  The interpretation - what a
// parameter type means, how a value is laid out on the wire, what the canonical line and its
// CRC-32 are - is done in TLA+ (spec/SchemaXlate.tla, spec/TLCodec.tla).
//
// `verif registry`: the constructor registry of the binary built from the working tree, by
// reflection (hook VerifRegistry): per crc the Go type, its kind and its fields in order.

import (
	"encoding/json"
	"flag"
	"io/ioutil"
	"os"
	"reflect"
	"regexp"
	"sort"
	"strconv"
	"strings"
	"unicode"

	"github.com/xelaj/mtproto/internal/encoding/tl"
	_ "github.com/xelaj/mtproto/internal/mtproto/objects"
	_ "github.com/xelaj/mtproto/telegram"
)

type tlParam struct {
	Name    string `json:"name"`
	LName   string `json:"lname"`   // name in lower case without underscores
	Type    string `json:"type"`    // as written
	Base    string `json:"base"`    // innermost type name (int, InputPeer, #, !X, future_salt, ...)
	Vec     bool   `json:"vec"`     // Vector<...> (boxed vector)
	BareVec bool   `json:"barevec"` // vector<...>
	Flagged bool   `json:"flagged"` // flags.N?...
	Bit     int    `json:"bit"`     // N or -1
	Boxed   bool   `json:"boxed"`   // base names a boxed type (capitalised after the namespace)
	Percent bool   `json:"percent"` // %Type (bare use of a boxed type)
}

type tlDef struct {
	File       string    `json:"file"`
	Line       int       `json:"line"`
	Section    string    `json:"section"` // types | functions
	Commented  bool      `json:"commented"`
	Name       string    `json:"name"`
	ID         []int     `json:"id"` // [hi16, lo16]; [-1,-1] when the line has no #id
	IDHex      string    `json:"idhex"`
	Generic    bool      `json:"generic"`
	Params     []tlParam `json:"params"`
	Result     string    `json:"result"`
	ResultVec  bool      `json:"resultvec"`
	ResultBase string    `json:"resultbase"`
	Text       []int     `json:"text"` // code points of the definition as written (without comment marker and ';')
}

var defRe = regexp.MustCompile(`^([A-Za-z0-9_.]+)(#[0-9a-fA-F]+)?\s+(.*)=\s*([^;]+);\s*$`)

func isBoxedName(s string) bool {
	if i := strings.LastIndex(s, "."); i >= 0 {
		s = s[i+1:]
	}
	return s != "" && unicode.IsUpper(rune(s[0]))
}

func lexParam(tok string) (tlParam, bool) {
	i := strings.Index(tok, ":")
	if i < 0 {
		return tlParam{}, false
	}
	p := tlParam{Name: tok[:i], LName: strings.ToLower(strings.ReplaceAll(tok[:i], "_", "")), Type: tok[i+1:], Bit: -1}
	t := p.Type
	if strings.HasPrefix(t, "flags.") {
		if q := strings.Index(t, "?"); q > 0 {
			if n, err := strconv.Atoi(t[len("flags."):q]); err == nil {
				p.Flagged, p.Bit = true, n
				t = t[q+1:]
			}
		}
	}
	switch {
	case strings.HasPrefix(t, "Vector<") && strings.HasSuffix(t, ">"):
		p.Vec = true
		t = t[len("Vector<") : len(t)-1]
	case strings.HasPrefix(t, "vector<") && strings.HasSuffix(t, ">"):
		p.BareVec = true
		t = t[len("vector<") : len(t)-1]
	}
	if strings.HasPrefix(t, "%") {
		p.Percent = true
		t = t[1:]
	}
	p.Base = t
	p.Boxed = isBoxedName(t) && !strings.HasPrefix(t, "!")
	return p, true
}

func lexSchema(path string) []tlDef {
	raw, err := ioutil.ReadFile(path)
	must(err)
	var out []tlDef
	section := "types"
	for n, line := range strings.Split(string(raw), "\n") {
		line = strings.TrimSpace(line)
		switch line {
		case "---functions---":
			section = "functions"
			continue
		case "---types---":
			section = "types"
			continue
		}
		commented := false
		if strings.HasPrefix(line, "//") {
			// a definition kept as a comment (the shipped api schema has five)
			line = strings.TrimSpace(strings.TrimPrefix(line, "//"))
			commented = true
		}
		m := defRe.FindStringSubmatch(line)
		if m == nil || (commented && m[2] == "") {
			continue
		}
		d := tlDef{File: path[strings.LastIndex(path, "/")+1:], Line: n + 1, Section: section, Commented: commented, Name: m[1], ID: []int{-1, -1}}
		if m[2] != "" {
			v, err := strconv.ParseUint(m[2][1:], 16, 32)
			if err != nil {
				continue
			}
			d.ID = []int{int(v >> 16), int(v & 0xffff)}
			d.IDHex = strconv.FormatUint(v, 16)
			for len(d.IDHex) < 8 {
				d.IDHex = "0" + d.IDHex
			}
		}
		ok := true
		for _, tok := range strings.Fields(m[3]) {
			if strings.HasPrefix(tok, "{") {
				d.Generic = true
				continue
			}
			if tok == "?" || tok == "#" || strings.ContainsAny(tok, "[]*") {
				ok = false // builtin pseudo definitions (int ? = Int; vector {t:Type} # [ t ] = Vector t;)
				break
			}
			p, good := lexParam(tok)
			if !good {
				ok = false
				break
			}
			d.Params = append(d.Params, p)
		}
		if !ok {
			continue
		}
		if d.Params == nil {
			d.Params = []tlParam{}
		}
		d.Result = strings.TrimSpace(m[4])
		d.ResultBase = d.Result
		if strings.HasPrefix(d.Result, "Vector<") {
			d.ResultVec = true
			d.ResultBase = d.Result[len("Vector<") : len(d.Result)-1]
		}
		for _, r := range strings.TrimSuffix(line, ";") {
			d.Text = append(d.Text, int(r))
		}
		out = append(out, d)
	}
	return out
}

type regField struct {
	Name  string `json:"name"`
	LName string `json:"lname"`
	Go   string `json:"go"`   // Go type as written by reflect
	Kind string `json:"kind"` // int long double string bytes bool true object enum int128 int256 other
	Vec  bool   `json:"vec"`
	Elem string `json:"elem"` // for objects / enums: the Go type name
	Bit  int    `json:"bit"`
	Tag  string `json:"tag"`
}

type regEntry struct {
	ID      []int      `json:"id"`
	IDHex   string     `json:"idhex"`
	Go      string     `json:"go"`
	Kind    string     `json:"kind"` // struct | enum | custom
	FlagIdx int        `json:"flagidx"`
	Fields  []regField `json:"fields"`
}

var (
	tObject    = reflect.TypeOf((*tl.Object)(nil)).Elem()
	tMarshal   = reflect.TypeOf((*tl.Marshaler)(nil)).Elem()
	tUnmarshal = reflect.TypeOf((*tl.Unmarshaler)(nil)).Elem()
	tInt128    = reflect.TypeOf(&tl.Int128{})
	tInt256    = reflect.TypeOf(&tl.Int256{})
)

func fieldKind(t reflect.Type) (kind string, vec bool, elem string) {
	if t.Kind() == reflect.Slice && t.Elem().Kind() != reflect.Uint8 {
		k, _, e := fieldKind(t.Elem())
		return k, true, e
	}
	switch {
	case t == tInt128:
		return "int128", false, ""
	case t == tInt256:
		return "int256", false, ""
	case t.Kind() == reflect.Int32:
		return "int", false, ""
	case t.Kind() == reflect.Int64:
		return "long", false, ""
	case t.Kind() == reflect.Float64:
		return "double", false, ""
	case t.Kind() == reflect.String:
		return "string", false, ""
	case t.Kind() == reflect.Slice:
		return "bytes", false, ""
	case t.Kind() == reflect.Bool:
		return "bool", false, ""
	case t.Kind() == reflect.Uint32 && t.Implements(tObject):
		return "enum", false, t.String()
	case t.Kind() == reflect.Interface, t.Kind() == reflect.Ptr && t.Implements(tObject):
		return "object", false, t.String()
	}
	return "other", false, t.String()
}

var flagTagRe = regexp.MustCompile(`flag:(\d+)`)

func registryEntries() []regEntry {
	objs, enums := tl.VerifRegistry()
	var out []regEntry
	for crc, t := range objs {
		e := regEntry{ID: []int{int(crc >> 16), int(crc & 0xffff)}, IDHex: strconv.FormatUint(uint64(crc), 16), Go: t.String(), FlagIdx: -1, Fields: []regField{}}
		for len(e.IDHex) < 8 {
			e.IDHex = "0" + e.IDHex
		}
		switch {
		case enums[crc]:
			e.Kind = "enum"
		case t.Implements(tMarshal) || t.Implements(tUnmarshal) || t.Kind() != reflect.Ptr || t.Elem().Kind() != reflect.Struct:
			e.Kind = "custom"
		default:
			e.Kind = "struct"
			st := t.Elem()
			if g, ok := reflect.New(st).Interface().(tl.FlagIndexGetter); ok {
				e.FlagIdx = g.FlagIndex()
			}
			for i := 0; i < st.NumField(); i++ {
				f := st.Field(i)
				k, vec, elem := fieldKind(f.Type)
				rf := regField{Name: f.Name, LName: strings.ToLower(f.Name), Go: f.Type.String(), Kind: k, Vec: vec, Elem: elem, Bit: -1, Tag: f.Tag.Get("tl")}
				if m := flagTagRe.FindStringSubmatch(rf.Tag); m != nil {
					rf.Bit, _ = strconv.Atoi(m[1])
				}
				if k == "bool" && strings.Contains(rf.Tag, "encoded_in_bitflags") {
					rf.Kind = "true"
				}
				e.Fields = append(e.Fields, rf)
			}
		}
		out = append(out, e)
	}
	sort.Slice(out, func(i, j int) bool { return out[i].IDHex < out[j].IDHex })
	return out
}

// wrapperEntries describes the hand-written generic request wrappers like registry entries, under the
// schema id the harness associates them with
func wrapperEntries() []regEntry {
	var out []regEntry
	for id, o := range wrapperTypes {
		t := reflect.TypeOf(o)
		e := regEntry{IDHex: id, Go: t.String(), Kind: "struct", FlagIdx: -1, Fields: []regField{}}
		st := t.Elem()
		if g, ok := o.(tl.FlagIndexGetter); ok {
			e.FlagIdx = g.FlagIndex()
		}
		for i := 0; i < st.NumField(); i++ {
			f := st.Field(i)
			k, vec, elem := fieldKind(f.Type)
			rf := regField{Name: f.Name, LName: strings.ToLower(f.Name), Go: f.Type.String(), Kind: k, Vec: vec, Elem: elem, Bit: -1, Tag: f.Tag.Get("tl")}
			if m := flagTagRe.FindStringSubmatch(rf.Tag); m != nil {
				rf.Bit, _ = strconv.Atoi(m[1])
			}
			e.Fields = append(e.Fields, rf)
		}
		e.ID = []int{0, 0}
		out = append(out, e)
	}
	sort.Slice(out, func(i, j int) bool { return out[i].IDHex < out[j].IDHex })
	return out
}

func init() {
	commands["schema"] = func(args []string) {
		fs := flag.NewFlagSet("schema", flag.ExitOnError)
		out := fs.String("out", "schema.json", "")
		fs.Parse(args)
		var all []tlDef
		for _, f := range fs.Args() {
			all = append(all, lexSchema(f)...)
		}
		b, err := json.Marshal(all)
		must(err)
		must(ioutil.WriteFile(*out, b, 0600))
		os.Stdout.WriteString("{\"definitions\": " + strconv.Itoa(len(all)) + "}\n")
	}
	commands["wrappers"] = func(args []string) {
		b, _ := json.Marshal(wrapperEntries())
		must(ioutil.WriteFile(args[0], b, 0600))
	}
	commands["registry"] = func(args []string) {
		fs := flag.NewFlagSet("registry", flag.ExitOnError)
		out := fs.String("out", "registry.json", "")
		fs.Parse(args)
		es := registryEntries()
		b, err := json.Marshal(es)
		must(err)
		must(ioutil.WriteFile(*out, b, 0600))
		os.Stdout.WriteString("{\"entries\": " + strconv.Itoa(len(es)) + "}\n")
	}
}
