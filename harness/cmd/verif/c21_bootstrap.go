package main

// `verif bootstrap`: an application client from telegram.NewClient on (spec/Bootstrap.tla, BootstrapTrace.tla).
// Cases come from TLC (BootstrapGen): the server's config (a sequence of data-centre options, CDN mirrors among them),
// the file situation, the data centre a later call is told to migrate to.  Four live servers on loopback play the home
// data centre, two other data centres and the CDN mirror; everything they see is logged and judged by TLC.

import (
	"crypto/rsa"
	"encoding/json"
	"flag"
	"fmt"
	"io/ioutil"
	"math/rand"
	"net"
	"os"
	"path/filepath"
	"strconv"
	"sync"
	"time"

	"github.com/xelaj/mtproto/internal/encoding/tl"
	"github.com/xelaj/mtproto/internal/keys"
	"github.com/xelaj/mtproto/internal/session"
	"github.com/xelaj/mtproto/telegram"
	"github.com/xelaj/mtproto/verifharness/refsrv"
)

type bootOpt struct {
	ID   int    `json:"id"`
	Addr string `json:"addr"`
	Cdn  bool   `json:"cdn"`
}

type bootCase struct {
	Opts     []bootOpt `json:"opts"`
	Keys     string    `json:"keys"`
	Session  string    `json:"session"`
	Migrate  int       `json:"migrate"`
	OK       bool      `json:"ok"`
	Exchange bool      `json:"exchange"`
	Targets  []string  `json:"targets"`
}

const (
	crcInvokeWithLayer = 0xda9b0d0d
	crcInitConnection  = 0xc1cd5ea9
	crcGetConfig       = 0xc4f9186b
	crcGetNearestDc    = 0x1fb33026
)

// the model's data centre ids 2 and 3 are played by ids outside the library's built-in list
var bootID = map[int]int{2: 7, 3: 9}

type bootRun struct {
	mu      sync.Mutex
	events  []map[string]interface{}
	servers map[string]*refsrv.Server
	cfgBody []byte
	arm     int // the next help.getNearestDc is answered PHONE_MIGRATE_<arm> (0: answered)
}

func (b *bootRun) emit(e map[string]interface{}) {
	b.mu.Lock()
	b.events = append(b.events, e)
	b.mu.Unlock()
}

func (b *bootRun) serve(name string, s *refsrv.Server) {
	s.OnConn = func(c *refsrv.Conn) { b.emit(map[string]interface{}{"e": "Conn", "srv": name}) }
	s.OnPlain = func(c *refsrv.Conn, crc uint32) { b.emit(map[string]interface{}{"e": "Plain", "srv": name}) }
	s.OnFrame = func(c *refsrv.Conn, f *refsrv.Frame) {
		if !f.KeyIDOK || !f.MsgKeyOK {
			b.emit(map[string]interface{}{"e": "Unreadable", "srv": name})
			return
		}
		rd := &refsrv.R{B: f.Body}
		crc := rd.U32()
		answer := func(body []byte) {
			c.WriteFrame(refsrv.Seal(c.AuthKey, f.Salt, f.SessionID, s.NextID(1), 1, refsrv.RpcResult(f.MsgID, body), 0x21))
		}
		switch crc {
		case refsrv.CrcMsgsAck:
			return
		case refsrv.CrcPing:
			pid := rd.I64()
			c.WriteFrame(refsrv.Seal(c.AuthKey, f.Salt, f.SessionID, s.NextID(1), 0, refsrv.Pong(f.MsgID, pid), 0x21))
			return
		case crcInvokeWithLayer:
			e := map[string]interface{}{"e": "Init", "srv": name, "layer": int(rd.I32()), "wellformed": false}
			if rd.U32() == crcInitConnection {
				flags := rd.U32()
				e["flags"] = int(flags)
				e["api_id"] = int(rd.I32())
				e["device"], e["sysver"], e["appver"] = string(rd.Str()), string(rd.Str()), string(rd.Str())
				e["syslang"], e["langpack"], e["lang"] = string(rd.Str()), string(rd.Str()), string(rd.Str())
				if flags == 0 && rd.Err == nil {
					q := rd.U32()
					e["query"] = fmt.Sprintf("%08x", q)
					e["wellformed"] = rd.Err == nil && len(rd.B) == 0 && q == crcGetConfig
				}
			}
			b.emit(e)
			answer(b.cfgBody)
			return
		case crcGetNearestDc:
			b.mu.Lock()
			x := b.arm
			b.arm = 0
			b.mu.Unlock()
			b.emit(map[string]interface{}{"e": "Req", "srv": name, "migrating": x})
			if x != 0 {
				answer(refsrv.RpcError(303, "PHONE_MIGRATE_"+strconv.Itoa(x)))
			} else {
				answer(refsrv.NearestDc(name, 1, 1))
			}
			return
		}
		b.emit(map[string]interface{}{"e": "Req", "srv": name, "crc": fmt.Sprintf("%08x", crc), "migrating": 0, "other": true})
	}
}

func bootScenario(id int, c bootCase, priv *rsa.PrivateKey, rng *rand.Rand, dir string) []map[string]interface{} {
	b := &bootRun{servers: map[string]*refsrv.Server{}}
	shared := map[string][]byte{}
	for _, name := range []string{"home", "dc2", "dc3", "cdn"} {
		s, err := refsrv.New(priv)
		must(err)
		s.Keys = shared
		b.servers[name] = s
		b.serve(name, s)
		defer s.Ln.Close()
	}
	// the server's config: the home data centre first, then the options of the case
	cfg := &telegram.Config{Date: 1, Expires: 2, ThisDc: 1, DcTxtDomainName: "x", MeURLPrefix: "https://t.me/"}
	hostPort := func(name string) (string, int32) {
		h, p, _ := net.SplitHostPort(b.servers[name].Addr())
		n, _ := strconv.Atoi(p)
		return h, int32(n)
	}
	h, p := hostPort("home")
	cfg.DcOptions = append(cfg.DcOptions, &telegram.DcOption{ID: 1, IpAddress: h, Port: p})
	for _, o := range c.Opts {
		h, p := hostPort(o.Addr)
		cfg.DcOptions = append(cfg.DcOptions, &telegram.DcOption{ID: int32(bootID[o.ID]), IpAddress: h, Port: p, Cdn: o.Cdn})
	}
	var err error
	b.cfgBody, err = tl.Marshal(cfg)
	must(err)
	app := telegram.ClientConfig{AppID: 10000 + rng.Intn(80000), AppHash: "h", ServerHost: b.servers["home"].Addr(), InitWarnChannel: true}
	given := rng.Intn(2) == 0
	if given {
		app.DeviceModel, app.SystemVersion, app.AppVersion = fmt.Sprintf("dev-%d", rng.Intn(1000)), fmt.Sprintf("sys-%d", rng.Intn(1000)), fmt.Sprintf("v%d", rng.Intn(1000))
	}
	sub := filepath.Join(dir, fmt.Sprintf("b%d", id))
	must(os.MkdirAll(sub, 0700))
	defer os.RemoveAll(sub)
	app.PublicKeysFile = filepath.Join(sub, "keys.pem")
	if c.Keys == "ok" {
		must(ioutil.WriteFile(app.PublicKeysFile, []byte(keys.SaveRsaKey(&priv.PublicKey)), 0600))
	}
	app.SessionFile = filepath.Join(sub, "session.json")
	if c.Session == "prefilled" {
		key := make([]byte, 256)
		rng.Read(key)
		salt := rng.Int63()
		for _, s := range b.servers {
			s.SetSalt(salt)
		}
		b.servers["home"].AddKey(key)
		must(session.NewFromFile(app.SessionFile).Store(&session.Session{Key: key, Hash: refsrv.KeyID(key), Salt: salt, Hostname: b.servers["home"].Addr()}))
	}
	exp := map[string]interface{}{"e": "Reset", "sc": id, "ok": c.OK, "exchange": c.Exchange, "migrate": bootID[c.Migrate], "targets": c.Targets,
		"api_id": app.AppID, "given": given, "device": app.DeviceModel, "sysver": app.SystemVersion, "appver": app.AppVersion}
	if exp["targets"] == nil {
		exp["targets"] = []string{}
	}
	b.emit(exp)
	var client *telegram.Client
	var cerr error
	done := make(chan struct{})
	go func() {
		defer func() {
			if p := recover(); p != nil {
				cerr = fmt.Errorf("panic: %v", p)
			}
			close(done)
		}()
		client, cerr = telegram.NewClient(app)
	}()
	select {
	case <-done:
	case <-time.After(25 * time.Second):
		b.emit(map[string]interface{}{"e": "NewClient", "ok": false, "timeout": true, "err": "no return in 25 s"})
		b.emit(map[string]interface{}{"e": "End"})
		return b.events
	}
	if cerr != nil || client == nil {
		b.emit(map[string]interface{}{"e": "NewClient", "ok": false, "timeout": false, "err": fmt.Sprint(cerr)})
		time.Sleep(30 * time.Millisecond)
		b.emit(map[string]interface{}{"e": "End"})
		return b.events
	}
	b.emit(map[string]interface{}{"e": "NewClient", "ok": true, "timeout": false, "err": ""})
	// the salts of all data centres follow the home one (one account, one key store)
	for _, s := range b.servers {
		s.SetSalt(b.servers["home"].CurrentSalt())
	}
	// an ordinary call, then the one that is told to migrate
	call := func(migrate int) {
		b.mu.Lock()
		b.arm = migrate
		b.mu.Unlock()
		b.emit(map[string]interface{}{"e": "Call", "migrate": migrate})
		type res struct {
			v   *telegram.NearestDc
			err error
		}
		ch := make(chan res, 1)
		go func() {
			defer func() {
				if p := recover(); p != nil {
					ch <- res{nil, fmt.Errorf("panic: %v", p)}
				}
			}()
			v, err := client.HelpGetNearestDc()
			ch <- res{v, err}
		}()
		select {
		case r := <-ch:
			if r.err != nil {
				b.emit(map[string]interface{}{"e": "Return", "ok": false, "from": "", "err": r.err.Error(), "timeout": false})
			} else {
				b.emit(map[string]interface{}{"e": "Return", "ok": true, "from": r.v.Country, "err": "", "timeout": false})
			}
		case <-time.After(15 * time.Second):
			b.emit(map[string]interface{}{"e": "Return", "ok": false, "from": "", "err": "no return in 15 s", "timeout": true})
		}
	}
	call(0)
	call(bootID[c.Migrate])
	time.Sleep(20 * time.Millisecond)
	client.Disconnect()
	b.emit(map[string]interface{}{"e": "End"})
	b.mu.Lock()
	defer b.mu.Unlock()
	return append([]map[string]interface{}{}, b.events...)
}

func init() {
	commands["bootstrap"] = func(args []string) {
		fs := flag.NewFlagSet("bootstrap", flag.ExitOnError)
		casesPath := fs.String("cases", "", "")
		out := fs.String("out", "bootstrap_trace.ndjson", "")
		keyPath := fs.String("key", "rsa.key", "")
		seed := fs.Int64("seed", 1, "")
		limit := fs.Int("limit", 0, "run a seeded sample of this many cases (0: all)")
		workers := fs.Int("workers", 8, "")
		fs.Parse(args)
		priv := loadOrMakeKey(*keyPath)
		rng := rand.New(rand.NewSource(*seed))
		var cases []bootCase
		must(readNDJSON(*casesPath, func(raw json.RawMessage) error {
			var c bootCase
			if err := json.Unmarshal(raw, &c); err != nil {
				return err
			}
			if c.Session == "unwritable" { // the harness runs as root: no path is unwritable
				return nil
			}
			cases = append(cases, c)
			return nil
		}))
		rng.Shuffle(len(cases), func(i, j int) { cases[i], cases[j] = cases[j], cases[i] })
		if *limit > 0 && len(cases) > *limit {
			// keep the file situations that are rare in the case set
			var keep []bootCase
			for _, c := range cases {
				if c.Keys != "ok" && len(keep) < 4 {
					keep = append(keep, c)
				}
			}
			for _, c := range cases {
				if len(keep) >= *limit {
					break
				}
				if c.Keys == "ok" {
					keep = append(keep, c)
				}
			}
			cases = keep
		}
		dir, err := ioutil.TempDir(".", "boot")
		must(err)
		defer os.RemoveAll(dir)
		results := make([][]map[string]interface{}, len(cases))
		var wg sync.WaitGroup
		sem := make(chan struct{}, *workers)
		for i := range cases {
			wg.Add(1)
			sem <- struct{}{}
			go func(i int, s int64) {
				defer wg.Done()
				defer func() { <-sem }()
				results[i] = bootScenario(i+1, cases[i], priv, rand.New(rand.NewSource(s)), dir)
			}(i, rng.Int63())
		}
		wg.Wait()
		f, err := os.Create(*out)
		must(err)
		enc := json.NewEncoder(f)
		n := 0
		for _, evs := range results {
			for _, e := range evs {
				enc.Encode(e)
				n++
			}
		}
		f.Close()
		cj, _ := json.Marshal(cases)
		ioutil.WriteFile(*out+".cases", cj, 0600)
		fmt.Printf("{\"scenarios\": %d, \"events\": %d}\n", len(cases), n)
	}
}
