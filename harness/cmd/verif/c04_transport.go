//go:build verif

package main

// C04 on a live connection: the receiving side of one transport object over loopback TCP, with the session's key
// replaced while the connection stays up (SetAuthKey / LoadSession on a connected client).  What the transport accepts
// depends on the key the session holds at that moment and on nothing it saw before: a packet sealed under the former key
// is a re-keyed packet (refused), a packet under the new key is accepted, an altered copy of an accepted packet is refused.

import (
	"bytes"
	"context"
	"encoding/binary"
	"fmt"
	"io"
	"math/rand"
	"net"
	"time"

	"github.com/xelaj/mtproto/internal/mode"
	"github.com/xelaj/mtproto/internal/transport"
	"github.com/xelaj/mtproto/verifharness/refsrv"
)

func c04LiveTransport(rep *Report, rng *rand.Rand, seed int64, rounds int) {
	for round := 0; round < rounds; round++ {
		ln, err := net.Listen("tcp", "127.0.0.1:0")
		must(err)
		frames := make(chan []byte)
		go func() {
			c, err := ln.Accept()
			if err != nil {
				return
			}
			defer c.Close()
			ann := make([]byte, 4)
			if _, err := io.ReadFull(c, ann); err != nil {
				return
			}
			for f := range frames {
				h := make([]byte, 4)
				binary.LittleEndian.PutUint32(h, uint32(len(f)))
				c.Write(append(h, f...))
			}
		}()
		ctx, cancel := context.WithCancel(context.Background())
		keyA, keyB := randBytes(rng, 256), randBytes(rng, 256)
		inf := &envInformator{key: keyA, salt: rng.Int63(), sid: rng.Int63()}
		tr, err := transport.NewTransport(inf, transport.TCPConnConfig{Ctx: ctx, Host: ln.Addr().String(), Timeout: 10 * time.Second}, mode.Intermediate)
		must(err)
		mid := int64(rng.Int63())&^3 | 1
		step := func(name string, pkt []byte, wantAccept bool, wantBody []byte) {
			rep.Evaluations++
			frames <- pkt
			var body []byte
			var e error
			pn := recoverTo(func() {
				m, err := tr.ReadMsg()
				e = err
				if err == nil {
					body = m.GetMsg()
				}
			})
			info := map[string]interface{}{"round": round, "step": name, "seed": seed}
			switch {
			case pn != nil:
				rep.Disagree("C04:panic:live-transport:"+name, fmt.Sprintf("ReadMsg panicked: %v", pn), info)
			case wantAccept && e != nil:
				rep.Disagree("C04:refused-valid:live-transport:"+name, "a packet sealed under the session's current key was refused: "+e.Error(), info)
			case wantAccept && !bytes.Equal(body, wantBody):
				rep.Disagree("C04:accepted-differs:live-transport:"+name, "the message read differs from the one the key holder sealed", info)
			case !wantAccept && e == nil:
				rep.Disagree("C04:accepted-invalid:live-transport:"+name, fmt.Sprintf("accepted (%d bytes of body) where the session's current key cannot have sealed it", len(body)), info)
			}
		}
		seal := func(key, body []byte) []byte {
			mid += 4
			return refsrv.Seal(key, inf.salt, inf.sid, mid, 1, body, byte(rng.Intn(256)))
		}
		b1, b2, b3 := randBytes(rng, 16+4*rng.Intn(40)), randBytes(rng, 16+4*rng.Intn(40)), randBytes(rng, 16+4*rng.Intn(40))
		p1 := seal(keyA, b1)
		step("first-under-A", p1, true, b1)
		altered := append([]byte{}, p1...)
		altered[24+rng.Intn(len(altered)-24)] ^= 1 << uint(rng.Intn(8))
		step("altered-copy-of-accepted", altered, false, nil)
		step("cut-copy-of-accepted", p1[:len(p1)-16], false, nil)
		inf.key = keyB // the session's key is replaced, the connection stays
		step("old-key-after-replacement", seal(keyA, b2), false, nil)
		step("replayed-old-packet", p1, false, nil)
		step("new-key", seal(keyB, b3), true, b3)
		inf.key = keyA
		step("back-to-first-key", seal(keyA, b2), true, b2)
		step("other-key-after-return", seal(keyB, b3), false, nil)
		close(frames)
		cancel()
		tr.Close()
		ln.Close()
	}
}
