// Package term interprets the symbolic terms that the TLA+ specifications emit (DESIGN 2.3):
// the specification fixes layouts, offsets, widths, byte orders and compositions; only the
// primitives (SHA-1/256, one AES block, big-number arithmetic, PBKDF2) are taken from Go.
package term

import (
	"bytes"
	"crypto/aes"
	"crypto/sha1"
	"crypto/sha256"
	"crypto/sha512"
	"encoding/json"
	"fmt"
	"math/big"
	"math/rand"

	"golang.org/x/crypto/pbkdf2"
)

type Term struct {
	Op   string  `json:"op"`
	A    []*Term `json:"a,omitempty"`
	N    int     `json:"n,omitempty"`
	I    int     `json:"i,omitempty"`
	J    int     `json:"j,omitempty"`
	Name string  `json:"name,omitempty"`
	B    []int   `json:"b,omitempty"`
}

// Val is either a byte string or an integer.
type Val struct {
	B []byte
	N *big.Int
}

func Bytes(b []byte) Val  { return Val{B: append([]byte{}, b...)} }
func Int(n *big.Int) Val  { return Val{N: new(big.Int).Set(n)} }
func Int64(n int64) Val   { return Val{N: big.NewInt(n)} }
func (v Val) IsInt() bool { return v.N != nil }
func (v Val) String() string {
	if v.IsInt() {
		return "int:" + v.N.String()
	}
	if len(v.B) > 48 {
		return fmt.Sprintf("bytes[%d]:%x..%x", len(v.B), v.B[:24], v.B[len(v.B)-8:])
	}
	return fmt.Sprintf("bytes[%d]:%x", len(v.B), v.B)
}
func Equal(a, b Val) bool {
	if a.IsInt() != b.IsInt() {
		return false
	}
	if a.IsInt() {
		return a.N.Cmp(b.N) == 0
	}
	return bytes.Equal(a.B, b.B)
}

type Env struct {
	Vars map[string]Val
	Rng  *rand.Rand
}

func NewEnv(rng *rand.Rand) *Env { return &Env{Vars: map[string]Val{}, Rng: rng} }

func Parse(raw json.RawMessage) (*Term, error) {
	t := new(Term)
	err := json.Unmarshal(raw, t)
	return t, err
}

type evalError struct{ msg string }

func fail(f string, a ...interface{}) { panic(evalError{fmt.Sprintf(f, a...)}) }

// Eval evaluates t; errors (type confusion, bad slice bounds, unknown variables) are returned.
func (e *Env) Eval(t *Term) (v Val, err error) {
	defer func() {
		if r := recover(); r != nil {
			if ee, ok := r.(evalError); ok {
				err = fmt.Errorf("term: %s", ee.msg)
				return
			}
			panic(r)
		}
	}()
	return e.ev(t), nil
}

func (e *Env) bytesOf(t *Term) []byte {
	v := e.ev(t)
	if v.IsInt() {
		fail("%s: expected bytes, got %s", t.Op, v)
	}
	return v.B
}

func (e *Env) intOf(t *Term) *big.Int {
	v := e.ev(t)
	if !v.IsInt() {
		fail("%s: expected int, got %s", t.Op, v)
	}
	return v.N
}

func fixed(n *big.Int, w int, op string) []byte {
	x := new(big.Int).Set(n)
	if x.Sign() < 0 { // two's complement
		x.Add(x, new(big.Int).Lsh(big.NewInt(1), uint(8*w)))
	}
	b := x.Bytes()
	if len(b) > w || x.Sign() < 0 {
		fail("%s: %s does not fit %d bytes", op, n, w)
	}
	return append(make([]byte, w-len(b)), b...)
}

func rev(b []byte) []byte {
	o := make([]byte, len(b))
	for i := range b {
		o[len(b)-1-i] = b[i]
	}
	return o
}

func (e *Env) ev(t *Term) Val {
	switch t.Op {
	case "var", "ref":
		v, ok := e.Vars[t.Name]
		if !ok {
			fail("unbound variable %q", t.Name)
		}
		return v
	case "lit":
		b := make([]byte, len(t.B))
		for i, x := range t.B {
			b[i] = byte(x)
		}
		return Val{B: b}
	case "int":
		return Int64(int64(t.N))
	case "cat":
		var out []byte
		for _, a := range t.A {
			out = append(out, e.bytesOf(a)...)
		}
		if out == nil {
			out = []byte{}
		}
		return Val{B: out}
	case "slice": // bytes I (inclusive) .. J (exclusive)
		b := e.bytesOf(t.A[0])
		if t.I < 0 || t.J < t.I || t.J > len(b) {
			fail("slice [%d:%d] of %d bytes", t.I, t.J, len(b))
		}
		return Val{B: b[t.I:t.J]}
	case "dslice":
		b := e.bytesOf(t.A[0])
		i, j := e.intOf(t.A[1]), e.intOf(t.A[2])
		if !i.IsInt64() || !j.IsInt64() || i.Int64() < 0 || j.Int64() < i.Int64() || j.Int64() > int64(len(b)) {
			fail("dslice [%s:%s] of %d bytes", i, j, len(b))
		}
		return Val{B: b[i.Int64():j.Int64()]}
	case "sint_le":
		b := rev(e.bytesOf(t.A[0]))
		n := new(big.Int).SetBytes(b)
		if len(b) > 0 && b[0]&0x80 != 0 {
			n.Sub(n, new(big.Int).Lsh(big.NewInt(1), uint(8*len(b))))
		}
		return Val{N: n}
	case "ige_e", "ige_d":
		k, iv, d := e.bytesOf(t.A[0]), e.bytesOf(t.A[1]), e.bytesOf(t.A[2])
		if len(k) != 32 || len(iv) != 32 || len(d) == 0 || len(d)%16 != 0 {
			fail("%s: key %d iv %d data %d bytes", t.Op, len(k), len(iv), len(d))
		}
		return Val{B: refIGE(k, iv, d, t.Op == "ige_d")}
	case "len":
		return Int64(int64(len(e.bytesOf(t.A[0]))))
	case "sha1":
		h := sha1.Sum(e.bytesOf(t.A[0]))
		return Val{B: h[:]}
	case "sha256":
		h := sha256.Sum256(e.bytesOf(t.A[0]))
		return Val{B: h[:]}
	case "aes_e", "aes_d":
		k, b := e.bytesOf(t.A[0]), e.bytesOf(t.A[1])
		c, err := aes.NewCipher(k)
		if err != nil || len(b) != 16 {
			fail("%s: key %d bytes, block %d bytes", t.Op, len(k), len(b))
		}
		out := make([]byte, 16)
		if t.Op == "aes_e" {
			c.Encrypt(out, b)
		} else {
			c.Decrypt(out, b)
		}
		return Val{B: out}
	case "xor":
		a, b := e.bytesOf(t.A[0]), e.bytesOf(t.A[1])
		if len(a) != len(b) {
			fail("xor of %d and %d bytes", len(a), len(b))
		}
		out := make([]byte, len(a))
		for i := range a {
			out[i] = a[i] ^ b[i]
		}
		return Val{B: out}
	case "le": // N-byte little-endian two's complement of an int
		return Val{B: rev(fixed(e.intOf(t.A[0]), t.N, "le"))}
	case "be": // N-byte big-endian, left-padded with zeros
		return Val{B: fixed(e.intOf(t.A[0]), t.N, "be")}
	case "strip": // minimal big-endian (no leading zero bytes)
		return Val{B: e.intOf(t.A[0]).Bytes()}
	case "lalign": // bytes copied left-aligned into N zero bytes (truncated if longer)
		b := e.bytesOf(t.A[0])
		out := make([]byte, t.N)
		copy(out, b)
		return Val{B: out}
	case "int_be":
		return Val{N: new(big.Int).SetBytes(e.bytesOf(t.A[0]))}
	case "int_le":
		return Val{N: new(big.Int).SetBytes(rev(e.bytesOf(t.A[0])))}
	case "modexp":
		return Val{N: new(big.Int).Exp(e.intOf(t.A[0]), e.intOf(t.A[1]), e.intOf(t.A[2]))}
	case "mul":
		return Val{N: new(big.Int).Mul(e.intOf(t.A[0]), e.intOf(t.A[1]))}
	case "add":
		return Val{N: new(big.Int).Add(e.intOf(t.A[0]), e.intOf(t.A[1]))}
	case "sub":
		return Val{N: new(big.Int).Sub(e.intOf(t.A[0]), e.intOf(t.A[1]))}
	case "mod":
		m := e.intOf(t.A[1])
		if m.Sign() == 0 {
			fail("mod 0")
		}
		return Val{N: new(big.Int).Mod(e.intOf(t.A[0]), m)}
	case "zeros":
		return Val{B: make([]byte, t.N)}
	case "free": // N bytes the specification does not determine
		b := make([]byte, t.N)
		e.Rng.Read(b)
		return Val{B: b}
	case "pbkdf2_sha512":
		return Val{B: pbkdf2.Key(e.bytesOf(t.A[0]), e.bytesOf(t.A[1]), t.N, t.I, sha512.New)}
	}
	fail("unknown op %q", t.Op)
	return Val{}
}

// refIGE is the harness's own whole-string IGE (independent of /repo); the C05 run checks it
// against the specification's unfolded block-by-block definition.
func refIGE(key, iv, in []byte, decrypt bool) []byte {
	blk, _ := aes.NewCipher(key)
	out := make([]byte, len(in))
	a, b := iv[:16], iv[16:] // enc: a = previous cipher block, b = previous plain block
	if decrypt {
		a, b = iv[16:], iv[:16] // dec: a = previous plain block, b = previous cipher block
	}
	t := make([]byte, 16)
	for i := 0; i < len(in); i += 16 {
		for j := 0; j < 16; j++ {
			t[j] = in[i+j] ^ a[j]
		}
		if decrypt {
			blk.Decrypt(out[i:i+16], t)
		} else {
			blk.Encrypt(out[i:i+16], t)
		}
		for j := 0; j < 16; j++ {
			out[i+j] ^= b[j]
		}
		a, b = out[i:i+16], in[i:i+16]
	}
	return out
}
