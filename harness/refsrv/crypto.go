package refsrv

import (
	"crypto/aes"
	"crypto/rsa"
	"crypto/sha1"
	"math/big"
)

func Sha1(parts ...[]byte) []byte {
	h := sha1.New()
	for _, p := range parts {
		h.Write(p)
	}
	return h.Sum(nil)
}

func IgeEncrypt(key, iv, in []byte) []byte {
	blk, _ := aes.NewCipher(key)
	out := make([]byte, len(in))
	cPrev, pPrev := iv[:16], iv[16:]
	t := make([]byte, 16)
	for i := 0; i+16 <= len(in); i += 16 {
		for j := 0; j < 16; j++ {
			t[j] = in[i+j] ^ cPrev[j]
		}
		blk.Encrypt(out[i:i+16], t)
		for j := 0; j < 16; j++ {
			out[i+j] ^= pPrev[j]
		}
		cPrev, pPrev = out[i:i+16], in[i:i+16]
	}
	return out
}

func IgeDecrypt(key, iv, in []byte) []byte {
	blk, _ := aes.NewCipher(key)
	out := make([]byte, len(in))
	cPrev, pPrev := iv[:16], iv[16:]
	t := make([]byte, 16)
	for i := 0; i+16 <= len(in); i += 16 {
		for j := 0; j < 16; j++ {
			t[j] = in[i+j] ^ pPrev[j]
		}
		blk.Decrypt(out[i:i+16], t)
		for j := 0; j < 16; j++ {
			out[i+j] ^= cPrev[j]
		}
		cPrev, pPrev = in[i:i+16], out[i:i+16]
	}
	return out
}

// Kdf is the MTProto 1.0 key schedule; x = 0 client->server, 8 server->client.
func Kdf(authKey, msgKey []byte, x int) (key, iv []byte) {
	a := Sha1(msgKey, authKey[x:x+32])
	b := Sha1(authKey[32+x:48+x], msgKey, authKey[48+x:64+x])
	c := Sha1(authKey[64+x:96+x], msgKey)
	d := Sha1(msgKey, authKey[96+x:128+x])
	key = append(append(append([]byte{}, a[0:8]...), b[8:20]...), c[4:16]...)
	iv = append(append(append(append([]byte{}, a[8:20]...), b[0:8]...), c[16:20]...), d[0:8]...)
	return
}

func KeyID(authKey []byte) []byte { return Sha1(authKey)[12:20] }

// TmpKeys derives the handshake AES key/IV from new_nonce (32 bytes) and server_nonce (16 bytes).
func TmpKeys(newNonce, srvNonce []byte) (key, iv []byte) {
	h1 := Sha1(newNonce, srvNonce)
	h2 := Sha1(srvNonce, newNonce)
	h3 := Sha1(newNonce, newNonce)
	key = append(append([]byte{}, h1...), h2[:12]...)
	iv = append(append(append([]byte{}, h2[12:20]...), h3...), newNonce[:4]...)
	return
}

func Fingerprint(k *rsa.PublicKey) []byte {
	var w W
	w.Str(k.N.Bytes())
	w.Str(big.NewInt(int64(k.E)).Bytes())
	return Sha1(w.Bytes())[12:20]
}

func LeftPad(b []byte, n int) []byte {
	if len(b) >= n {
		return b
	}
	return append(make([]byte, n-len(b)), b...)
}
