// Package refsrv is an independent reference MTProto 1.0 server used by the conformance
// harness: own TL reader/writer, own IGE, own handshake arithmetic, own envelope - nothing is
// imported from /repo, so the client under test and this peer cannot share a wrong reading.
// Its envelope and handshake arithmetic are themselves checked against the specification's
// terms (EnvelopeTerm / HandshakeTerm) in the runs that use them.
package refsrv

import (
	"bytes"
	"compress/gzip"
	"encoding/binary"
	"errors"
)

// W is a TL writer.
type W struct{ bytes.Buffer }

func (w *W) U32(v uint32) *W {
	var b [4]byte
	binary.LittleEndian.PutUint32(b[:], v)
	w.Write(b[:])
	return w
}
func (w *W) I32(v int32) *W { return w.U32(uint32(v)) }
func (w *W) I64(v int64) *W {
	var b [8]byte
	binary.LittleEndian.PutUint64(b[:], uint64(v))
	w.Write(b[:])
	return w
}
func (w *W) Raw(b []byte) *W { w.Write(b); return w }
func (w *W) Str(b []byte) *W {
	n := len(b)
	if n < 254 {
		w.WriteByte(byte(n))
		w.Write(b)
		for (n+1)%4 != 0 {
			w.WriteByte(0)
			n++
		}
		return w
	}
	w.Write([]byte{254, byte(n), byte(n >> 8), byte(n >> 16)})
	w.Write(b)
	for n%4 != 0 {
		w.WriteByte(0)
		n++
	}
	return w
}

// R is a TL reader with a sticky error.
type R struct {
	B   []byte
	Err error
}

func (r *R) Take(n int) []byte {
	if r.Err != nil || n < 0 || n > len(r.B) {
		r.Err = errors.New("short read")
		return make([]byte, n&0xffff)
	}
	x := r.B[:n]
	r.B = r.B[n:]
	return x
}
func (r *R) U32() uint32 { return binary.LittleEndian.Uint32(r.Take(4)) }
func (r *R) I32() int32  { return int32(r.U32()) }
func (r *R) I64() int64  { return int64(binary.LittleEndian.Uint64(r.Take(8))) }
func (r *R) Str() []byte {
	h := r.Take(1)[0]
	n, hl := int(h), 1
	if h == 254 {
		x := r.Take(3)
		n, hl = int(x[0])|int(x[1])<<8|int(x[2])<<16, 4
	}
	s := r.Take(n)
	if p := (hl + n) % 4; p != 0 {
		r.Take(4 - p)
	}
	return s
}

// constructor ids (schemes/mtproto.tl and the few API objects the harness answers with)
const (
	CrcReqPQ           = 0x60469778
	CrcResPQ           = 0x05162463
	CrcPQInnerData     = 0x83c95aec
	CrcReqDHParams     = 0xd712e4be
	CrcServerDHOk      = 0xd0e8075c
	CrcServerDHFail    = 0x79cb045d
	CrcServerDHInner   = 0xb5890dba
	CrcClientDHInner   = 0x6643b654
	CrcSetClientDH     = 0xf5045f1f
	CrcDHGenOk         = 0x3bcbf734
	CrcDHGenRetry      = 0x46dc1fb9
	CrcDHGenFail       = 0xa69dae02
	CrcVector          = 0x1cb5c415
	CrcRpcResult       = 0xf35c6d01
	CrcRpcError        = 0x2144ca19
	CrcGzipPacked      = 0x3072cfa1
	CrcMsgContainer    = 0x73f1f8dc
	CrcMsgsAck         = 0x62d6b459
	CrcBadMsgNotify    = 0xa7eff811
	CrcBadServerSalt   = 0xedab447b
	CrcNewSession      = 0x9ec20908
	CrcPing            = 0x7abe77ec
	CrcPong            = 0x347773c5
	CrcBoolTrue        = 0x997275b5
	CrcBoolFalse       = 0xbc799737
	CrcNearestDc       = 0x8e1a1775
	CrcFutureSalts     = 0xae500895
	CrcMsgsStateInfo   = 0x04deb57d
	CrcMsgsAllInfo     = 0x8cc0d131
	CrcMsgDetailedInfo = 0x276d3ec6
	CrcMsgNewDetailed  = 0x809db6df
	CrcMsgResendReq    = 0x7d861a08
	CrcMsgsStateReq    = 0xda69fb52
	CrcUpdatesTooLong  = 0xe317af7e
	CrcUpdateShort     = 0x78d4dec1
)

func RpcResult(reqID int64, result []byte) []byte {
	var w W
	return w.U32(CrcRpcResult).I64(reqID).Raw(result).Bytes()
}
func RpcError(code int32, text string) []byte {
	var w W
	return w.U32(CrcRpcError).I32(code).Str([]byte(text)).Bytes()
}
func NearestDc(country string, thisDC, nearest int32) []byte {
	var w W
	return w.U32(CrcNearestDc).Str([]byte(country)).I32(thisDC).I32(nearest).Bytes()
}
func Bool(v bool) []byte {
	var w W
	if v {
		return w.U32(CrcBoolTrue).Bytes()
	}
	return w.U32(CrcBoolFalse).Bytes()
}
func VectorInt(vals ...int32) []byte {
	var w W
	w.U32(CrcVector).U32(uint32(len(vals)))
	for _, v := range vals {
		w.I32(v)
	}
	return w.Bytes()
}
func VectorObj(objs ...[]byte) []byte {
	var w W
	w.U32(CrcVector).U32(uint32(len(objs)))
	for _, o := range objs {
		w.Raw(o)
	}
	return w.Bytes()
}
func Gzip(inner []byte) []byte {
	var z bytes.Buffer
	g := gzip.NewWriter(&z)
	g.Write(inner)
	g.Close()
	var w W
	return w.U32(CrcGzipPacked).Str(z.Bytes()).Bytes()
}
func MsgsAck(ids ...int64) []byte {
	var w W
	w.U32(CrcMsgsAck).U32(CrcVector).U32(uint32(len(ids)))
	for _, id := range ids {
		w.I64(id)
	}
	return w.Bytes()
}
func BadServerSalt(badID int64, badSeq int32, newSalt int64) []byte {
	var w W
	return w.U32(CrcBadServerSalt).I64(badID).I32(badSeq).I32(48).I64(newSalt).Bytes()
}
func BadMsgNotification(badID int64, badSeq int32, code int32) []byte {
	var w W
	return w.U32(CrcBadMsgNotify).I64(badID).I32(badSeq).I32(code).Bytes()
}
func NewSessionCreated(firstID, unique, salt int64) []byte {
	var w W
	return w.U32(CrcNewSession).I64(firstID).I64(unique).I64(salt).Bytes()
}
func Pong(msgID, pingID int64) []byte {
	var w W
	return w.U32(CrcPong).I64(msgID).I64(pingID).Bytes()
}

// Inner is one message of a container.
type Inner struct {
	MsgID int64
	SeqNo int32
	Body  []byte
}

func Container(items ...Inner) []byte {
	var w W
	w.U32(CrcMsgContainer).U32(uint32(len(items)))
	for _, it := range items {
		w.I64(it.MsgID).I32(it.SeqNo).I32(int32(len(it.Body))).Raw(it.Body)
	}
	return w.Bytes()
}
