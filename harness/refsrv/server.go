package refsrv

import (
	"bytes"
	"crypto/rand"
	"crypto/rsa"
	"encoding/binary"
	"fmt"
	"io"
	"math/big"
	"net"
	"sync"
	"time"
)

// Telegram's 2048-bit DH prime (core.telegram.org/mtproto/security_guidelines), g = 3.
const dhPrimeHex = "C71CAEB9C6B1C9048E6C522F70F13F73980D40238E3E21C14934D037563D930F48198A0AA7C14058229493D22530F4DBFA336F6E0AC925139543AED44CCE7C3720FD51F69458705AC68CD4FE6B6B13ABDC9746512969328454F18FAF8C595F642477FE96BB2A941D5BCD1D4AC8CC49880708FA9B378E3C4F3A9060BEE67CF9A4A4A695811051907E162753B56B0F6B410DBA74D8A84B2A14B3144E0EF1284754FD17ED950D5965B4B9DD46582DB1178D169C6BC465B0D6FF9CA3928FEF5B9AE4E418FC15E83EBEA0F87FA9FF5EED70050DED2849F47BF959D956850CE929851F0D8115F635B105EE2E4E15D04B2454BF6F4FADF034B10403119CD8E3B92FCC5B"

var DHPrime, _ = new(big.Int).SetString(dhPrimeHex, 16)

// Lie tells the server to deviate from the protocol exactly once (C07).
type Lie struct {
	Step  string // resPQ | dhParams | dhInner | dhGen
	Field string // nonce | server_nonce | fingerprints | answer_hash | new_nonce_hash | kind | g_a ...
	How   string // flip | flip2 | swap | fresh | other | zero | fail | retry | several | none (fingerprints)
	Bit   int    // bit position for flip
}

// HS lets a run force value-dependent corners of the key exchange (C06).
type HS struct {
	ServerNonce func() []byte             // 16 bytes
	PQ          func() (p, q *big.Int)    // two primes
	A           func() *big.Int           // server DH exponent
	AcceptA     func(ga, a *big.Int) bool // re-draw a until accepted (e.g. g_a with a leading zero byte)
	AcceptDone  func(authKey, nonceHash []byte) bool
	Lie         *Lie
	PadByte     byte
}

// Frame is one decrypted client->server message as the server saw it.
type Frame struct {
	Conn      int
	KeyIDOK   bool
	MsgKeyOK  bool
	Salt      int64
	SessionID int64
	MsgID     int64
	SeqNo     int32
	Body      []byte
	PadLen    int
	Raw       []byte
}

type Server struct {
	Ln   net.Listener
	Priv *rsa.PrivateKey

	mu     sync.Mutex
	Keys   map[string][]byte // key id -> auth key (may be shared between servers: migration)
	Salt   int64
	Conns  []*Conn
	HS     HS
	lastID int64
	nconn  int

	// callbacks (called from connection goroutines, serialised by the harness's own lock)
	OnConn   func(c *Conn)
	OnPlain  func(c *Conn, crc uint32)
	OnFrame  func(c *Conn, f *Frame)
	OnHSDone func(c *Conn, authKey []byte, salt int64)
	OnClose  func(c *Conn, err error)
	OnSecret func(c *Conn, name string, val []byte) // values the client drew: nonce, new_nonce, g_b
	Log      func(format string, a ...interface{})
}

type Conn struct {
	ID        int
	S         *Server
	C         net.Conn
	Announce  []byte
	wmu       sync.Mutex
	AuthKey   []byte
	LastFrame []byte // the last frame written to this connection
	SessionID int64
	FirstKind string // "plain" | "keyid" : what the first frame on this connection was
	closed    bool
}

func New(priv *rsa.PrivateKey) (*Server, error) {
	ln, err := net.Listen("tcp", "127.0.0.1:0")
	if err != nil {
		return nil, err
	}
	s := &Server{Ln: ln, Priv: priv, Keys: map[string][]byte{}, Log: func(string, ...interface{}) {}}
	go s.acceptLoop()
	return s, nil
}

func (s *Server) Addr() string { return s.Ln.Addr().String() }

func (s *Server) acceptLoop() {
	for {
		c, err := s.Ln.Accept()
		if err != nil {
			return
		}
		if tc, ok := c.(*net.TCPConn); ok {
			tc.SetNoDelay(true)
		}
		s.mu.Lock()
		s.nconn++
		conn := &Conn{ID: s.nconn, S: s, C: c}
		s.Conns = append(s.Conns, conn)
		s.mu.Unlock()
		go conn.serve()
	}
}

// NextID returns a fresh server msg_id: time-based, parity 1 (response) or 3 (notification).
func (s *Server) NextID(parity int64) int64 {
	s.mu.Lock()
	defer s.mu.Unlock()
	now := time.Now().UnixNano()
	id := ((now/1e9)<<32 | (now%1e9)<<2) &^ 3
	if id <= s.lastID {
		id = (s.lastID &^ 3) + 4
	}
	s.lastID = id
	return id | parity
}

func (s *Server) CurrentSalt() int64 { s.mu.Lock(); defer s.mu.Unlock(); return s.Salt }
func (s *Server) SetSalt(v int64)    { s.mu.Lock(); s.Salt = v; s.mu.Unlock() }
func (s *Server) AddKey(k []byte)    { s.mu.Lock(); s.Keys[string(KeyID(k))] = k; s.mu.Unlock() }
func (s *Server) LastConn() *Conn {
	s.mu.Lock()
	defer s.mu.Unlock()
	for i := len(s.Conns) - 1; i >= 0; i-- {
		if !s.Conns[i].closed {
			return s.Conns[i]
		}
	}
	return nil
}

// ReadyConn returns the newest open connection on which an encrypted client frame was seen
// (auth key and session id known), or nil.
func (s *Server) ReadyConn() *Conn {
	s.mu.Lock()
	defer s.mu.Unlock()
	for i := len(s.Conns) - 1; i >= 0; i-- {
		if c := s.Conns[i]; !c.closed && c.AuthKey != nil && c.SessionID != 0 {
			return c
		}
	}
	return nil
}

func (s *Server) ConnByID(id int) *Conn {
	s.mu.Lock()
	defer s.mu.Unlock()
	for _, c := range s.Conns {
		if c.ID == id {
			return c
		}
	}
	return nil
}

func readFrame(c net.Conn) ([]byte, error) {
	var h [4]byte
	if _, err := io.ReadFull(c, h[:]); err != nil {
		return nil, err
	}
	n := binary.LittleEndian.Uint32(h[:])
	if n > 1<<26 {
		return nil, fmt.Errorf("frame of %d bytes", n)
	}
	b := make([]byte, n)
	_, err := io.ReadFull(c, b)
	return b, err
}

// WriteFrame writes one intermediate-mode frame.
func (c *Conn) WriteFrame(b []byte) error {
	c.wmu.Lock()
	defer c.wmu.Unlock()
	c.LastFrame = append([]byte{}, b...)
	var h [4]byte
	binary.LittleEndian.PutUint32(h[:], uint32(len(b)))
	_, err := c.C.Write(append(h[:], b...))
	return err
}

// Close closes the connection in an orderly way: FIN (no RST even if client data is still
// unread), then the serve loop drains until the client closes its side.
func (c *Conn) Close() {
	c.closed = true
	if tc, ok := c.C.(*net.TCPConn); ok {
		tc.CloseWrite()
		return
	}
	c.C.Close()
}

// Abort drops the connection at once.
func (c *Conn) Abort() {
	c.closed = true
	c.C.Close()
}

func (c *Conn) sendPlain(body []byte) {
	var w W
	w.I64(0).I64(c.S.NextID(1)).U32(uint32(len(body))).Raw(body)
	c.WriteFrame(w.Bytes())
}

// Seal builds a server->client encrypted packet (key schedule offset 8).
func Seal(authKey []byte, salt, sessionID, msgID int64, seq int32, body []byte, padByte byte) []byte {
	var w W
	w.I64(salt).I64(sessionID).I64(msgID).I32(seq).U32(uint32(len(body))).Raw(body)
	plain := w.Bytes()
	msgKey := Sha1(plain)[4:20]
	padded := append([]byte{}, plain...)
	for len(padded)%16 != 0 {
		padded = append(padded, padByte)
	}
	k, iv := Kdf(authKey, msgKey, 8)
	var o W
	return o.Raw(KeyID(authKey)).Raw(msgKey).Raw(IgeEncrypt(k, iv, padded)).Bytes()
}

// SendEnc seals and sends body; returns the msg_id used. parity 1 = response, 3 = notification.
func (c *Conn) SendEnc(body []byte, seq int32, parity int64) int64 {
	id := c.S.NextID(parity)
	c.SendEncID(id, body, seq)
	return id
}

func (c *Conn) SendEncID(id int64, body []byte, seq int32) {
	c.WriteFrame(Seal(c.AuthKey, c.S.CurrentSalt(), c.SessionID, id, seq, body, 0x55))
}

func (c *Conn) serve() {
	s := c.S
	defer func() {
		if s.OnClose != nil {
			s.OnClose(c, nil)
		}
	}()
	ann := make([]byte, 4)
	if _, err := io.ReadFull(c.C, ann); err != nil {
		return
	}
	c.Announce = ann
	if s.OnConn != nil {
		s.OnConn(c)
	}
	hs := &hsState{}
	for {
		f, err := readFrame(c.C)
		if err != nil {
			c.closed = true
			c.C.Close()
			return
		}
		if c.closed {
			continue // draining after an orderly close
		}
		if len(f) < 8 {
			s.Log("conn %d: short frame %d", c.ID, len(f))
			continue
		}
		if binary.LittleEndian.Uint64(f[:8]) == 0 {
			if c.FirstKind == "" {
				c.FirstKind = "plain"
			}
			c.handlePlain(hs, f)
			continue
		}
		if c.FirstKind == "" {
			c.FirstKind = "keyid"
		}
		c.handleEnc(f)
	}
}

func (c *Conn) handleEnc(f []byte) {
	s := c.S
	fr := &Frame{Conn: c.ID, Raw: f}
	s.mu.Lock()
	key, ok := s.Keys[string(f[:8])]
	s.mu.Unlock()
	if !ok || len(f) < 24+16 || (len(f)-24)%16 != 0 {
		if s.OnFrame != nil {
			s.OnFrame(c, fr)
		}
		return
	}
	fr.KeyIDOK = true
	c.AuthKey = key
	msgKey := f[8:24]
	k, iv := Kdf(key, msgKey, 0)
	dec := IgeDecrypt(k, iv, f[24:])
	r := &R{B: dec}
	fr.Salt, fr.SessionID, fr.MsgID, fr.SeqNo = r.I64(), r.I64(), r.I64(), r.I32()
	n := int(r.U32())
	if n < 0 || n > len(dec)-32 {
		if s.OnFrame != nil {
			s.OnFrame(c, fr)
		}
		return
	}
	fr.Body = append([]byte{}, r.Take(n)...)
	fr.PadLen = len(dec) - 32 - n
	fr.MsgKeyOK = bytes.Equal(Sha1(dec[:32+n])[4:20], msgKey)
	c.SessionID = fr.SessionID
	if s.OnFrame != nil {
		s.OnFrame(c, fr)
	}
}

type hsState struct {
	nonce, srvNonce, newNonce []byte
	a                         *big.Int
	p, q                      *big.Int
}

func (l *Lie) at(step, field string) bool {
	return l != nil && l.Step == step && l.Field == field
}

func corrupt(l *Lie, v []byte, other []byte) []byte {
	out := append([]byte{}, v...)
	switch l.How {
	case "flip":
		out[(l.Bit/8)%len(out)] ^= 1 << uint(l.Bit%8)
	case "flip2": // the same bit of two different bytes
		i := (l.Bit / 8) % len(out)
		j := (i + 1 + l.Bit%(len(out)-1)) % len(out)
		out[i] ^= 1 << uint(l.Bit%8)
		out[j] ^= 1 << uint(l.Bit%8)
	case "swap": // two unequal bytes change places
		i := (l.Bit / 8) % len(out)
		for k := 1; k < len(out); k++ {
			j := (i + k) % len(out)
			if out[i] != out[j] {
				out[i], out[j] = out[j], out[i]
				break
			}
		}
		if bytes.Equal(out, v) {
			out[0] ^= 0x81
		}
	case "fresh":
		rand.Read(out)
	case "other":
		for i := range out {
			out[i] = 0
		}
		copy(out, other)
		if bytes.Equal(out, v) {
			out[0] ^= 0xff
		}
	case "zero":
		for i := range out {
			out[i] = 0
		}
	}
	return out
}

func (c *Conn) handlePlain(hs *hsState, f []byte) {
	s := c.S
	r := &R{B: f[8:]}
	r.I64()
	n := r.U32()
	body := &R{B: r.Take(int(n))}
	crc := body.U32()
	if s.OnPlain != nil {
		s.OnPlain(c, crc)
	}
	lie := s.HS.Lie
	switch crc {
	case CrcReqPQ:
		hs.nonce = append([]byte{}, body.Take(16)...)
		if s.OnSecret != nil {
			s.OnSecret(c, "nonce", hs.nonce)
		}
		if s.HS.ServerNonce != nil {
			hs.srvNonce = s.HS.ServerNonce()
		} else {
			hs.srvNonce = make([]byte, 16)
			rand.Read(hs.srvNonce)
		}
		if s.HS.PQ != nil {
			hs.p, hs.q = s.HS.PQ()
		} else {
			hs.p, _ = rand.Prime(rand.Reader, 31)
			hs.q, _ = rand.Prime(rand.Reader, 31)
			for hs.q.Cmp(hs.p) == 0 {
				hs.q, _ = rand.Prime(rand.Reader, 31)
			}
		}
		nonce, sn := hs.nonce, hs.srvNonce
		if lie.at("resPQ", "nonce") {
			nonce = corrupt(lie, nonce, sn)
		}
		if lie.at("resPQ", "server_nonce") {
			// a lie about server_nonce here simply *is* the server nonce; nothing to check against
		}
		fp := Fingerprint(&s.Priv.PublicKey)
		if lie.at("resPQ", "fingerprints") {
			fp = corrupt(lie, fp, nonce)
		}
		var w W
		w.U32(CrcResPQ).Raw(nonce).Raw(sn).Str(new(big.Int).Mul(hs.p, hs.q).Bytes())
		if lie.at("resPQ", "fingerprints") && lie.How == "none" {
			w.U32(CrcVector).U32(0)
		} else if lie.at("resPQ", "fingerprints") && lie.How == "several" {
			w.U32(CrcVector).U32(3).Raw(Sha1(fp, []byte{1})[:8]).Raw(Sha1(fp, []byte{2})[:8]).Raw(Sha1(fp, []byte{3})[:8])
		} else if lie.at("resPQ", "fingerprints") {
			w.U32(CrcVector).U32(1).Raw(fp)
		} else {
			// a server may offer several keys; the client answers with the fingerprint of the one it knows.  The
			// position of that key in the list varies with the connection
			other1, other2 := Sha1(fp, []byte{1})[:8], Sha1(fp, []byte{2})[:8]
			list := [][]byte{fp, other1, other2}
			k := c.ID % 3
			list[0], list[k] = list[k], list[0]
			w.U32(CrcVector).U32(3).Raw(list[0]).Raw(list[1]).Raw(list[2])
		}
		if lie.at("resPQ", "kind") {
			var x W
			x.U32(CrcDHGenFail).Raw(nonce).Raw(sn).Raw(make([]byte, 16))
			c.sendPlain(x.Bytes())
			return
		}
		c.sendPlain(w.Bytes())
	case CrcReqDHParams:
		body.Take(32)
		body.Str()
		body.Str()
		gotFP := body.Take(8)
		if !bytes.Equal(gotFP, Fingerprint(&s.Priv.PublicKey)) && (lie == nil || !lie.at("resPQ", "fingerprints")) {
			s.Log("conn %d: req_DH_params names a key this server does not hold", c.ID)
			c.Close()
			return
		}
		enc := body.Str()
		m := new(big.Int).Exp(new(big.Int).SetBytes(enc), s.Priv.D, s.Priv.N).Bytes()
		m = LeftPad(m, 255)
		in := &R{B: m[20:]}
		if in.U32() != CrcPQInnerData {
			s.Log("conn %d: p_q_inner_data not readable (RSA block)", c.ID)
			c.Close()
			return
		}
		in.Str()
		in.Str()
		in.Str()
		in.Take(32)
		hs.newNonce = append([]byte{}, in.Take(32)...)
		if s.OnSecret != nil {
			s.OnSecret(c, "new_nonce", hs.newNonce)
		}
		if in.Err != nil || !bytes.Equal(Sha1(m[20:len(m)-len(in.B)]), m[:20]) {
			s.Log("conn %d: p_q_inner_data sha1 mismatch", c.ID)
			c.Close()
			return
		}
		for {
			if s.HS.A != nil {
				hs.a = s.HS.A()
			} else {
				hs.a, _ = rand.Int(rand.Reader, new(big.Int).Lsh(big.NewInt(1), 2040))
			}
			if s.HS.AcceptA == nil || s.HS.AcceptA(new(big.Int).Exp(big.NewInt(3), hs.a, DHPrime), hs.a) {
				break
			}
		}
		ga := new(big.Int).Exp(big.NewInt(3), hs.a, DHPrime)
		nonce, sn := hs.nonce, hs.srvNonce
		inNonce, inSN := nonce, sn
		if lie.at("dhInner", "nonce") {
			inNonce = corrupt(lie, nonce, sn)
		}
		if lie.at("dhInner", "server_nonce") {
			inSN = corrupt(lie, sn, nonce)
		}
		var ans W
		ans.U32(CrcServerDHInner).Raw(inNonce).Raw(inSN).U32(3).Str(DHPrime.Bytes()).Str(ga.Bytes()).U32(uint32(time.Now().Unix()))
		if lie.at("dhInner", "kind") {
			ans.Reset()
			ans.U32(CrcClientDHInner).Raw(inNonce).Raw(inSN).I64(0).Str(ga.Bytes())
		}
		h := Sha1(ans.Bytes())
		if lie.at("dhParams", "answer_hash") {
			h = corrupt(lie, h, nonce)
		}
		full := append(append([]byte{}, h...), ans.Bytes()...)
		for len(full)%16 != 0 {
			full = append(full, s.HS.PadByte)
		}
		k, iv := TmpKeys(hs.newNonce, hs.srvNonce)
		outNonce, outSN := nonce, sn
		if lie.at("dhParams", "nonce") {
			outNonce = corrupt(lie, nonce, sn)
		}
		if lie.at("dhParams", "server_nonce") {
			outSN = corrupt(lie, sn, nonce)
		}
		var w W
		if lie.at("dhParams", "kind") {
			w.U32(CrcServerDHFail).Raw(outNonce).Raw(outSN).Raw(Sha1(hs.newNonce)[4:20])
		} else {
			w.U32(CrcServerDHOk).Raw(outNonce).Raw(outSN).Str(IgeEncrypt(k, iv, full))
		}
		c.sendPlain(w.Bytes())
	case CrcSetClientDH:
		body.Take(32)
		enc := body.Str()
		k, iv := TmpKeys(hs.newNonce, hs.srvNonce)
		if len(enc) == 0 || len(enc)%16 != 0 {
			s.Log("conn %d: client_DH_inner_data ciphertext of %d bytes", c.ID, len(enc))
			c.Close()
			return
		}
		dec := IgeDecrypt(k, iv, enc)
		in := &R{B: dec[20:]}
		if in.U32() != CrcClientDHInner {
			s.Log("conn %d: client_DH_inner_data not readable", c.ID)
			c.Close()
			return
		}
		in.Take(32)
		in.I64()
		gb := new(big.Int).SetBytes(in.Str())
		if s.OnSecret != nil {
			s.OnSecret(c, "g_b", gb.Bytes())
		}
		inner := dec[20 : len(dec)-len(in.B)]
		if in.Err != nil || !bytes.Equal(Sha1(inner), dec[:20]) || len(in.B) > 15 {
			s.Log("conn %d: client_DH_inner_data sha1/padding mismatch (pad %d)", c.ID, len(in.B))
			c.Close()
			return
		}
		authKey := LeftPad(new(big.Int).Exp(gb, hs.a, DHPrime).Bytes(), 256)
		salt := make([]byte, 8)
		for i := range salt {
			salt[i] = hs.newNonce[i] ^ hs.srvNonce[i]
		}
		h1 := Sha1(hs.newNonce, []byte{1}, Sha1(authKey)[:8])[4:20]
		nonce, sn := hs.nonce, hs.srvNonce
		if lie.at("dhGen", "nonce") {
			nonce = corrupt(lie, nonce, sn)
		}
		if lie.at("dhGen", "server_nonce") {
			sn = corrupt(lie, sn, hs.nonce)
		}
		if lie.at("dhGen", "new_nonce_hash") {
			h1 = corrupt(lie, h1, hs.nonce)
		}
		crcOut := uint32(CrcDHGenOk)
		if lie.at("dhGen", "kind") {
			if lie.How == "retry" {
				crcOut = CrcDHGenRetry
				h1 = Sha1(hs.newNonce, []byte{2}, Sha1(authKey)[:8])[4:20]
			} else {
				crcOut = CrcDHGenFail
				h1 = Sha1(hs.newNonce, []byte{3}, Sha1(authKey)[:8])[4:20]
			}
		}
		s.mu.Lock()
		s.Keys[string(KeyID(authKey))] = authKey
		s.Salt = int64(binary.LittleEndian.Uint64(salt))
		s.mu.Unlock()
		c.AuthKey = authKey
		if s.OnHSDone != nil {
			s.OnHSDone(c, authKey, int64(binary.LittleEndian.Uint64(salt)))
		}
		var w W
		w.U32(crcOut).Raw(nonce).Raw(sn).Raw(h1)
		c.sendPlain(w.Bytes())
	default:
		s.Log("conn %d: unknown plain constructor %08x", c.ID, crc)
	}
}
