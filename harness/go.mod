module github.com/xelaj/mtproto/verifharness

go 1.13

require (
	golang.org/x/crypto v0.0.0-20210322153248-0c34fe9e7dc2
	github.com/xelaj/errs v0.0.0-20200831133608-d1c11863e019
	github.com/xelaj/mtproto v0.0.0
	github.com/xelaj/mtproto/internal/cmd/tlgen v0.0.0
	github.com/xelaj/mtproto/telegram/deeplinks v0.0.0
)

replace github.com/xelaj/mtproto => /repo

replace github.com/xelaj/mtproto/telegram/deeplinks => /repo/telegram/deeplinks

replace github.com/xelaj/mtproto/internal/cmd/tlgen => /repo/internal/cmd/tlgen
