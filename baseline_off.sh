#!/bin/sh
# Runs xelaj/mtproto's own test suite with the verif build tag OFF (hooks compiled out).
export GOFLAGS=-mod=mod GOPROXY=off GOSUMDB=off GOTOOLCHAIN=local
rc=0
for m in . telegram/deeplinks internal/cmd/tlgen; do
  (cd /repo/$m && go test -vet=off -count=1 -timeout 25m ./...) || rc=1
done
exit $rc
