#!/bin/sh
# Offline setup after a fresh restore: warm the Go build cache for the harness (hooks on)
# and make sure the TLA+ tools start.  Everything is built from files on disk.
set -e
export GOFLAGS=-mod=mod GOPROXY=off GOSUMDB=off GOTOOLCHAIN=local
cd /verif/harness
cat /repo/go.sum /repo/telegram/deeplinks/go.sum /repo/internal/cmd/tlgen/go.sum go.sum 2>/dev/null | sort -u > go.sum.new && mv go.sum.new go.sum
mkdir -p /verif/.work
go build -tags verif -o /verif/.work/verif-setup ./cmd/verif
rm -f /verif/.work/verif-setup
java -cp /opt/veriftools/tla/tla2tools.jar tlc2.TLC -h >/dev/null 2>&1 || true
echo setup ok
