"""C03 / C04 - encrypted envelope (spec/Envelope.tla, EnvelopeToy.tla, EnvelopeTerm.tla)."""
import json
import os

import common as C


def run_env(ctx, which):
    thorough = ctx.tier == "thorough"
    mc = C.run_tlc(ctx, "EnvelopeToy", "EnvelopeToy.cfg", workers=C.NCPU, timeout=900)
    C.run_tlc(ctx, "EnvelopeToy", "EnvelopeToyDevLen.cfg", workers=4, expect_violation=True, timeout=300,
              tag="sensitivity:LengthGuardInverted")
    cases = os.path.join(ctx.wd, "env_cases.ndjson")
    muts = os.path.join(ctx.wd, "env_mut.ndjson")
    C.run_tlc(ctx, "EnvelopeTerm", "EnvelopeTermThorough.cfg" if thorough else "EnvelopeTerm.cfg", workers=1,
              env={"VERIF_OUT": cases, "VERIF_OUT2": muts}, timeout=900, tag="generate-terms")
    args = ["envelope", "-cases", cases, "-mutations", muts, "-seed", str(ctx.seed), "-only", which,
            "-concretisations", "10" if thorough else "3"]
    if thorough and which == "c04":
        args.append("-allbits")
    r = C.run_harness(ctx, args, timeout=3000)
    rep = json.loads(r.stdout)
    for d in rep["disagreements"]:
        ctx.disagreement(d["sig"], d["detail"], d["case"])
    ncases = sum(1 for _ in open(cases if which == "c03" else muts))
    if which == "c03":
        # eight goroutines (each its own client) sealing, opening and using the message wrapper at the same time
        crep = C.run_harness_phase(ctx, ["envelopeconc", "-seed", str(ctx.seed), "-rounds", "20000" if thorough else "4000"],
                                   "C03:process-died:concurrent", "sealing and opening from eight goroutines", timeout=1800)
        for d in (crep or {}).get("disagreements", []):
            if d["sig"].startswith("C03:"):
                ctx.disagreement(d["sig"], d["detail"], d["case"])
    return mc, rep, ncases


def run(ctx):
    mc, rep, ncases = run_env(ctx, "c03")
    extra = {}
    C.write_evidence(ctx, "model_checking", {
        "states": mc.distinct, "transitions": mc.generated,
        "traces_validated_against_impl": ncases,
        "evaluations": rep["evaluations"], "distinct_nontrivial": rep["distinct"],
        "rule": "EnvelopeToy (symbolic bytes): every direction x body length x mutation class through the receive machine; "
                "EnvelopeTerm: client->server Serialize output opened the way a conformant server does, server->client packets "
                "sealed from the specification's layout opened by DeserializeEncrypted, plain-text messages both ways - for every "
                "body-length residue mod 16 (0..64, 1 KiB, 64 KiB), ack and no ack, seeded keys and extreme salt/session/id values",
        "samples": rep["samples"], "exhaustive": True, "disagreement_signatures": rep["sig_counts"],
    }, ["SHA-1 and the AES block are Go's; the harness's whole-string IGE is checked against the unfolded definition by the C05 run",
        "padding content is unspecified (any bytes), its amount is fixed by the specification"])


def replay(ctx, path):
    rec = json.load(open(path))
    ctx.seed = rec["seed"]
    ctx.tier = rec.get("tier", "quick")
    print("replay: case class %s, re-running with seed %d" % (rec["signature"], ctx.seed))
    import importlib
    importlib.import_module("p_" + ctx.pid.lower()).run(ctx)
