#!/bin/sh
# usage: lib/sweep.sh <tier> [seed...]   runs every check of MANIFEST.json at the tier with each seed, prints one line per run
tier=${1:-quick}; shift
seeds=${*:-1}
cd "$(dirname "$0")/.."
for s in $seeds; do
  for id in C01 C02 C03 C04 C05 C06 C07 C08 C09 C10 C11 C12 C13 C14 C15 C16 C17 C18 C19 C20; do
    t0=$(date +%s)
    VERIF_SEED=$s VERIF_EVIDENCE_DIR=${VERIF_EVIDENCE_DIR:-$PWD/.work/sweep-evidence} ./check $id --tier $tier > .work/sweep-$tier-$s-$id.log 2>&1
    rc=$?
    echo "$id tier=$tier seed=$s rc=$rc $(( $(date +%s) - t0 ))s $(grep -c '^VIOLATION' .work/sweep-$tier-$s-$id.log) violations $(grep -m1 'CHECK-BROKEN' .work/sweep-$tier-$s-$id.log | cut -c1-200)"
  done
done
