"""Bootstrap of an application client (spec/Bootstrap.tla, BootstrapGen.tla, BootstrapTrace.tla): shared by C12 (a session
file that holds a session is resumed), C13 (the wrapped help.getConfig is the first request and carries the configuration)
and C17 (a migration goes to an address the server's config lists for that data centre, never to a CDN mirror)."""
import json
import os

import common as C

DEVS = ["CdnNotSkipped", "ConfigIgnored", "InitNotFirst", "ExchangeOnResume", "ContactBeforeFileCheck"]
K_C12 = {"key-exchange-although-the-session-file-holds-a-session", "newclient-failed", "newclient-never-returned"}
K_C13 = {"init-request-not-as-the-schema-and-the-configuration-say", "request-before-the-init-request", "no-init-request", "frame-server-cannot-open"}
K_C17 = {"migration-not-to-a-configured-address", "migration-to-an-unconfigured-data-centre-did-not-fail", "cdn-mirror-contacted", "call-never-returned",
         "ordinary-call-failed", "newclient-failed", "newclient-never-returned", "unusable-files-accepted", "contact-despite-unusable-files"}


def run(ctx, kinds, limit, prefix):
    mc = C.run_tlc(ctx, "Bootstrap", "Bootstrap.cfg", workers=4, timeout=600, tag="Bootstrap.cfg")
    for d in DEVS:
        C.run_tlc(ctx, "Bootstrap", "BootstrapDev%s.cfg" % d, workers=2, expect_violation=True, timeout=300, tag="sensitivity:Bootstrap:" + d)
    cases = os.path.join(ctx.wd, "boot_cases.ndjson")
    C.run_tlc(ctx, "BootstrapGen", "BootstrapGen.cfg", workers=1, env={"VERIF_OUT": cases}, timeout=600, tag="generate:BootstrapGen")
    trace = os.path.join(ctx.wd, "boot_trace.ndjson")
    key = os.path.join(ctx.wd, "boot_rsa.key")
    rep = C.run_harness_phase(ctx, ["bootstrap", "-cases", cases, "-out", trace, "-key", key, "-seed", str(ctx.seed), "-limit", str(limit)],
                              prefix + ":process-died:bootstrap", "an application client from NewClient on", timeout=1800)
    if rep is None:
        return {"scenarios": 0, "events": 0, "model_states": mc.distinct}
    out = trace + ".verdicts"
    tv = C.run_tlc(ctx, "BootstrapTrace", "BootstrapTrace.cfg", workers=1, env={"VERIF_TRACE": trace, "VERIF_OUT": out}, timeout=1800,
                   tag="trace-validation:bootstrap")
    if not os.path.exists(out):
        raise C.Broken("BootstrapTrace wrote no verdicts:\n" + tv.out[-2000:])
    verdicts = C.read_ndjson(out)
    run_cases = json.load(open(trace + ".cases"))
    events = C.read_ndjson(trace)
    by = {}
    cur = None
    for e in events:
        if e["e"] == "Reset":
            cur = e["sc"]
        by.setdefault(cur, []).append(e)
    seen = set()
    for v in verdicts:
        seen.add(v["kind"])
        if v["kind"] not in kinds:
            continue
        c = run_cases[v["sc"] - 1]
        cls = "opts=%s:session=%s:keys=%s" % (",".join("%d%s@%s" % (o["id"], "cdn" if o["cdn"] else "", o["addr"]) for o in c["opts"]) or "none", c["session"], c["keys"])
        ctx.disagreement("%s:bootstrap:%s:%s" % (prefix, v["kind"], cls), "application client, %s, told to migrate to data centre %d: %s" % (cls, c["migrate"], v["kind"]),
                         {"case": c, "verdict": v, "events": by.get(v["sc"], [])[:60]})
    if rep["scenarios"] < min(limit, 20):
        raise C.Broken("bootstrap: only %d scenarios ran" % rep["scenarios"])
    return {"scenarios": rep["scenarios"], "events": rep["events"], "model_states": mc.distinct, "verdict_kinds_seen": sorted(seen),
            "kinds_judged_here": sorted(kinds)}
