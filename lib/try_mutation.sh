#!/bin/sh
# usage: try_mutation.sh <dir with patch.diff> <property id> [tier]
# applies the seeded change to /repo, runs the check, and always restores /repo.
d=$1; pid=$2; tier=${3:-quick}
cd /repo || exit 3
if [ -n "$(git status --porcelain)" ]; then echo "/repo not clean"; exit 3; fi
git apply "$d/patch.diff" || { echo "patch does not apply"; git checkout -- .; exit 3; }
cd /verif && ./check "$pid" --tier "$tier" > /tmp/try_mut.out 2>&1; rc=$?
git -C /repo checkout -- . ; git -C /repo clean -fdq
grep -E "^VIOLATION|KNOWN-FINDING|CHECK-BROKEN|OK|violation" /tmp/try_mut.out | head -8
echo "rc=$rc"
