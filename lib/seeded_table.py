#!/usr/bin/env python3
"""Writes seeded/<id>/meta.json (property, what the change needs to manifest, what was run and what it gave) and
   seeded/MATRIX.md from author_meta.json + confirm.json + detect.json; prints the table."""
import json
import os

VERIF = os.path.dirname(os.path.dirname(os.path.abspath(__file__)))
SEEDED = os.path.join(VERIF, "seeded")
rows = []
for mid in sorted(x for x in os.listdir(SEEDED) if os.path.isdir(os.path.join(SEEDED, x))):
    d = os.path.join(SEEDED, mid)
    if os.path.exists(os.path.join(d, "retired.json")):
        continue
    a = json.load(open(os.path.join(d, "author_meta.json")))
    c = json.load(open(os.path.join(d, "confirm.json")))
    t = json.load(open(os.path.join(d, "detect.json"))) if os.path.exists(os.path.join(d, "detect.json")) else {"checks": {}}
    own = t["checks"].get(a["property"], {})
    meta = {
        "id": mid, "property": a["property"], "summary": a["summary"], "needs_to_manifest": a["needs_to_manifest"],
        "files_changed": a.get("files_changed"),
        "confirmed_in_scratch_worktree": {
            "base_commit": c.get("base_commit"), "command": "python3 lib/confirm_seeded.py " + mid, "demo_cmd": c.get("demo_cmd"),
            "demo_passes_without_patch": c.get("demo_passes_without_patch"), "demo_fails_with_patch": c.get("demo_fails_with_patch"),
            "repository_tests_pass_with_patch": c.get("tests_pass_with_patch")},
        "checks_run_with_patch_applied": {"command": "python3 lib/run_seeded.py %s  (git -C /repo apply; ./check <id> --tier %s; git -C /repo checkout -- .)" % (mid, t.get("tier", "quick")),
                                          "results": t["checks"]},
        "caught_by": sorted(k for k, v in t["checks"].items() if v["exit"] == 1),
    }
    json.dump(meta, open(os.path.join(d, "meta.json"), "w"), indent=1)
    others = ["%s%s" % (k, "" if v["exit"] == 1 else " (no)") for k, v in t["checks"].items() if k != a["property"]]
    summ = a["summary"].split(". ")[0][:150].replace("|", "/")
    rows.append("| %s | %s | %s | %s | %s |" % (mid, summ, "yes" if own.get("exit") == 1 else "NO",
                                            "; ".join(s.replace("|", "/") for s in own.get("signatures", [])[:2])[:110], ", ".join(others)))
hdr = "| change | what it does (author's first sentence) | caught by its property's quick check | first signatures | other checks tried |\n|---|---|---|---|---|\n"
table = hdr + "\n".join(rows)
open(os.path.join(SEEDED, "MATRIX.md"), "w").write("# Seeded changes x checks (quick tier, seed 1)\n\n" + table + "\n")
print(table)
