"""C07 - key exchange aborts on any inconsistent reply (spec/Handshake.tla lies, HandshakeTrace.tla)."""
import random

import common as C
import p_session as S
from p_c06 import model, gen_cases, hs_run, replay  # noqa: F401


def run(ctx):
    thorough = ctx.tier == "thorough"
    mc = model(ctx, ["SkipHash", "SkipInner", "SkipFingerprint", "DevPanicOnBadAnswerHash", "DevFingerprintCheckedOnce"])
    _, lies = gen_cases(ctx)
    rng = random.Random(ctx.seed + 7)
    scs = []
    sid = 0
    steps = [{"a": "Probe", "tag": 90}, {"a": "Settle"}]
    for l in lies:
        widths = {"nonce": 128, "server_nonce": 128, "new_nonce_hash": 128, "fingerprints": 64, "answer_hash": 160}
        bits = [0]
        if l["how"] == "flip":
            w = widths.get(l["field"], 8)
            bits = list(range(w)) if thorough else sorted({0, 7, w - 1, rng.randrange(w), rng.randrange(w)})
        elif l["how"] in ("flip2", "swap"):
            w = widths.get(l["field"], 8)
            bits = list(range(0, w, 3)) if thorough else sorted({rng.randrange(w), rng.randrange(w)})
        for b in bits:
            sid += 1
            scs.append(S.mk(sid, "lie", "handshake-lie", steps, fresh=True,
                            hs={"corner": "", "lz": 0, "lie": {"Step": l["step"], "Field": l["field"], "How": l["how"], "Bit": b}}, seed=ctx.seed * 100 + sid))
    # an exchange that got past some of its steps and was abandoned, then a second attempt on the same client object in which the
    # server lies in another way (Handshake!Again with any lie): every check is made again, whatever the first attempt established
    firsts = [("dhParams", "kind", "fail"), ("dhGen", "new_nonce_hash", "flip"), ("dhInner", "nonce", "flip"), ("dhGen", "kind", "retry")]
    seconds = [("resPQ", "fingerprints", "several"), ("resPQ", "fingerprints", "none"), ("resPQ", "nonce", "flip"), ("dhParams", "answer_hash", "flip"),
               ("dhGen", "new_nonce_hash", "flip2"), ("dhInner", "server_nonce", "fresh")]
    for i, f in enumerate(firsts):
        for j, g in enumerate(seconds):
            if not thorough and (i + j) % 2 == 1:
                continue
            sid += 1
            scs.append(S.mk(sid, "lie-then-lie", "handshake-lie", steps, fresh=True, seed=ctx.seed * 100 + sid,
                            hs={"corner": "", "lz": 0, "retry": True, "lie": {"Step": f[0], "Field": f[1], "How": f[2], "Bit": rng.randrange(64)},
                                "lie2": {"Step": g[0], "Field": g[1], "How": g[2], "Bit": rng.randrange(64)}}))
    nev, verdicts = hs_run(ctx, scs, "c07")
    C.write_evidence(ctx, "model_checking", {
        "states": mc.distinct, "transitions": mc.generated, "traces_validated_against_impl": len(scs),
        "evaluations": nev, "distinct_nontrivial": len(scs),
        "rule": "Handshake.tla: every (step, field) lie x every leading-zero assignment: LieImpliesAbort, StoredIffDone, "
                "NoEncryptedFrameUnlessDone, never a panic state; omitting any single check (three sampled) or panicking on a bad answer "
                "hash must break it. Real exchanges: the reference server lies exactly once - every reply field of resPQ, "
                "server_DH_params_ok, server_DH_inner_data, dh_gen_ok x {bit flip at seeded positions (every bit in thorough), fresh value, "
                "the other nonce, zero} and the failure / retry constructors; CreateConnection must return an error, the store stay "
                "empty, no encrypted frame reach the server; judged by TLC (HandshakeTrace)",
        "samples": scs[:3], "exhaustive": False, "verdict_kinds_seen": sorted({v["kind"] for v in verdicts}),
    }, ["a panic inside CreateConnection is recovered by the harness and reported as 'panic-instead-of-error'"])
