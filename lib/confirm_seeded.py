#!/usr/bin/env python3
"""Confirms the seeded changes under /verif/seeded in scratch worktrees of /repo (never in /repo itself):
   demo passes on the unchanged tree, fails with the patch; the repository's own tests pass with the patch.
   usage: confirm_seeded.py [ids...]   (default: all); writes seeded/<id>/confirm.json"""
import concurrent.futures
import json
import os
import re
import shutil
import subprocess
import sys
import uuid

VERIF = os.path.dirname(os.path.dirname(os.path.abspath(__file__)))
SEEDED = os.path.join(VERIF, "seeded")
ENV = dict(os.environ, GOFLAGS="-mod=mod", GOPROXY="off", GOSUMDB="off", GOTOOLCHAIN="local")
MODS = [".", "telegram/deeplinks", "internal/cmd/tlgen"]


def sh(cmd, cwd, timeout=1500):
    r = subprocess.run(cmd, shell=True, cwd=cwd, env=ENV, capture_output=True, text=True, timeout=timeout)
    return r.returncode, (r.stdout + r.stderr)[-3000:]


OVERRIDE = {
    # the demo's end-to-end variant runs the exchange over a 2032-bit prime and pads the key to 254 bytes, which
    # the tree no longer agrees with since the handshake uses the protocol's fixed 256-byte width (fix 0c7422a);
    # the in-package variants show the same change
    "C06_1": "go test -vet=off -count=1 -run 'ZZMutC06_(ClientDHInnerDataLeadingZeros|BytesBoundary)' -v . ./internal/encoding/tl/",
}


def demo_cmd(meta, mid=None):
    if mid in OVERRIDE:
        return OVERRIDE[mid]
    c = meta["demo_cmd"]
    m = re.search(r"((?:cd \S+ && )?go test.*)$", c)
    cmd = m.group(1)
    cmd = re.split(r"\s*(?:;|&&)\s*rm\s", cmd)[0]   # the author's own clean-up would remove the demo before the second run
    cmd = re.split(r"\s+#", cmd)[0]
    if cmd.count(")") > cmd.count("("):   # the author wrapped it in a subshell
        cmd = cmd.rstrip().rstrip(")")
    return cmd


def confirm(mid):
    d = os.path.join(SEEDED, mid)
    meta = json.load(open(os.path.join(d, "author_meta.json")))
    wt = "/tmp/seedwt-%s-%s" % (mid, uuid.uuid4().hex[:6])
    res = {"id": mid, "base_commit": subprocess.run(["git", "-C", "/repo", "rev-parse", "--short", "HEAD"], capture_output=True, text=True).stdout.strip()}
    try:
        rc, out = sh("git -C /repo worktree add --detach %s HEAD" % wt, "/")
        if rc != 0:
            res["error"] = out
            return res
        shutil.copytree(os.path.join(d, "demo"), wt, dirs_exist_ok=True)
        cmd = demo_cmd(meta, mid)
        res["demo_cmd"] = cmd
        rc, out = sh(cmd, wt)
        res["demo_passes_without_patch"] = rc == 0
        if rc != 0:
            res["demo_without_patch_output"] = out
        rc, out = sh("git apply %s" % os.path.join(d, "patch.diff"), wt)
        if rc != 0:
            res["error"] = "patch does not apply: " + out
            return res
        rc, out = sh(cmd, wt)
        res["demo_fails_with_patch"] = rc != 0
        res["demo_with_patch_output"] = out[-1200:]
        # the repository's own tests, demo files removed
        for root, _, files in os.walk(os.path.join(d, "demo")):
            for f in files:
                rel = os.path.relpath(os.path.join(root, f), os.path.join(d, "demo"))
                if os.path.exists(os.path.join(wt, rel)):
                    os.remove(os.path.join(wt, rel))
        ok = True
        for m in MODS:
            rc, out = sh("go test -vet=off -count=1 -timeout 25m ./...", os.path.join(wt, m))
            if rc != 0:
                ok = False
                res["tests_output"] = out
        res["tests_pass_with_patch"] = ok
        return res
    finally:
        subprocess.run(["git", "-C", "/repo", "worktree", "remove", "--force", wt], capture_output=True)
        shutil.rmtree(wt, ignore_errors=True)
        subprocess.run(["git", "-C", "/repo", "worktree", "prune"], capture_output=True)


def main():
    ids = sys.argv[1:] or sorted(x for x in os.listdir(SEEDED) if os.path.isdir(os.path.join(SEEDED, x)))
    with concurrent.futures.ThreadPoolExecutor(max_workers=6) as ex:
        for res in ex.map(confirm, ids):
            json.dump(res, open(os.path.join(SEEDED, res["id"], "confirm.json"), "w"), indent=1)
            good = res.get("demo_passes_without_patch") and res.get("demo_fails_with_patch") and res.get("tests_pass_with_patch")
            print(res["id"], "CONFIRMED" if good else "NOT-CONFIRMED", {k: v for k, v in res.items() if k in ("demo_passes_without_patch", "demo_fails_with_patch", "tests_pass_with_patch", "error")})


if __name__ == "__main__":
    main()
