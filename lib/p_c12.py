"""C12 - stored sessions (spec/SessionStore.tla, spec/SessionStoreTrace.tla).
Store part: op sequences on real files, validated by TLC.  Resume part: session engine (p_session)."""
import json
import os

import common as C


def run(ctx):
    thorough = ctx.tier == "thorough"
    mc = C.run_tlc(ctx, "SessionStore", "SessionStore.cfg", workers=C.NCPU, timeout=900)
    C.run_tlc(ctx, "SessionStore", "SessionStoreDevNoInv.cfg", workers=2, expect_violation=True, timeout=300,
              tag="sensitivity:NoInvalidateOnStore")
    C.run_tlc(ctx, "SessionStore", "SessionStoreDevCoarse.cfg", workers=2, expect_violation=True, timeout=300,
              tag="sensitivity:CoarseForeign")
    trace = os.path.join(ctx.wd, "store_trace.ndjson")
    info = os.path.join(ctx.wd, "store_info.ndjson")
    r = C.run_harness(ctx, ["store", "-seed", str(ctx.seed), "-trace", trace, "-info", info,
                            "-maxlen", "5" if thorough else "4",
                            "-concretisations", "24" if thorough else "8",
                            "-crashconc", "6" if thorough else "2"], timeout=1800)
    summary = json.loads(r.stdout.strip().splitlines()[-1])
    out = os.path.join(ctx.wd, "store_verdicts.ndjson")
    tv = C.run_tlc(ctx, "SessionStoreTrace", "SessionStoreTrace.cfg", workers=1,
                   env={"VERIF_TRACE": trace, "VERIF_OUT": out}, timeout=1800, tag="trace-validation")
    if not os.path.exists(out):
        raise C.Broken("trace validation wrote no verdict file:\n" + tv.out[-2000:])
    bad = C.read_ndjson(out)
    infos = {}
    for d in C.read_ndjson(info):
        infos[d["seq"]] = d
    for b in bad:
        i = infos.get(b["seq"], {})
        ctx.disagreement(b["kind"],
                         "ops %s on a %s path: position %d wanted %s, real code gave %s" % (i.get("ops"), i.get("path"), b["pos"], b["want"], b["got"]),
                         {"verdict": b, "sequence": i})
    samples = [infos[k] for k in sorted(infos)[:3]] + [infos[k] for k in sorted(infos)[-2:]]
    extra = {}
    try:
        import p_session
        extra = p_session.run_c12_part(ctx)
    except ImportError:
        pass
    cov = {
        "states": mc.distinct, "transitions": mc.generated,
        "traces_validated_against_impl": summary["sequences"] + extra.get("histories", 0),
        "evaluations": summary["ops"], "distinct_nontrivial": summary["sequences"],
        "rule": "every op sequence up to length %d over {Store(l,s), Load(l), Tick, Crash} for 2 loaders x 2 sessions, plus every "
                "prefix length of the file as a crash point (fresh and over a cached session), executed on real files "
                "(absolute / relative / bare paths, seeded session contents of different serialised lengths); each recorded "
                "event judged by TLC against SessionStoreTrace; a sequence is one trace" % (5 if thorough else 4),
        "samples": samples, "exhaustive": True,
        "trace_events": tv.distinct, "verdict_kinds": sorted({b["kind"] for b in bad}),
    }
    cov.update(extra.get("coverage", {}))
    import p_boot
    cov["bootstrap"] = p_boot.run(ctx, p_boot.K_C12, 200 if thorough else 40, "C12")
    cov["traces_validated_against_impl"] += cov["bootstrap"]["scenarios"]
    C.write_evidence(ctx, "model_checking", cov,
                     ["modification times are set with os.Chtimes to the abstract clock (a coarse file-system clock)",
                      "a torn file is a strict prefix of what Store writes (whole-file write, no rename)"])


def replay(ctx, path):
    rec = json.load(open(path))
    print("C12 replay: sequence %s on a %s path; re-running the whole enumeration with the recorded seed" %
          (rec["case"]["sequence"].get("ops"), rec["case"]["sequence"].get("path")))
    ctx.seed = rec["seed"]
    ctx.tier = rec.get("tier", "quick")
    run(ctx)
