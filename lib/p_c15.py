"""C15 - decoding arbitrary bytes never panics (spec/TLDecoder.tla; mutants of TLCodecGen images)."""
import json
import os
import subprocess

import common as C
import p_codec


def fuzz(ctx, cases, every, seed, maxwords):
    """Runs the mutation child; when it dies the mutant that killed it is a violation and the run resumes after it."""
    C.build_harness(ctx)
    skip = 0
    total = {"evaluations": 0, "sig_counts": {}, "disagreements": [], "samples": [], "extra": {}}
    for attempt in range(40):
        p = subprocess.run([ctx.harness_bin, "codecfuzz", "-cases", cases, "-every", str(every), "-seed", str(seed), "-skip", str(skip),
                            "-maxwords", str(maxwords)], capture_output=True, text=True, timeout=3000, cwd=ctx.wd, env=C.go_env())
        lines = p.stdout.splitlines()
        if p.returncode == 0 and "REPORT" in lines:
            rep = json.loads(lines[lines.index("REPORT") + 1])
            total["evaluations"] += rep["evaluations"]
            for k, v in rep["sig_counts"].items():
                total["sig_counts"][k] = total["sig_counts"].get(k, 0) + v
            total["disagreements"] += rep["disagreements"]
            total["samples"] = rep["samples"]
            total["extra"] = rep["extra"]
            return total
        last = [l for l in lines if l.startswith("M ")]
        if not last:
            raise C.Broken("codecfuzz child died before the first mutant: " + p.stderr[-1500:])
        n, cls, hint, data = last[-1].split(" ", 4)[1:5]
        why = "out of memory" if "out of memory" in p.stderr else p.stderr.strip().splitlines()[0][:200] if p.stderr.strip() else "rc=%d" % p.returncode
        total["disagreements"].append({"sig": "C15:process-died:" + cls, "detail": "decoding a %s mutant killed the process (%s): %s" % (cls, why, data[:120]),
                                       "case": {"class": cls, "hint": hint, "bytes": data, "stderr": p.stderr[:1500]}})
        total["sig_counts"]["C15:process-died:" + cls] = total["sig_counts"].get("C15:process-died:" + cls, 0) + 1
        total["evaluations"] += int(n) - skip
        skip = int(n)
    # forty mutants killed the process: each is reported; the remaining ones were not examined
    total["extra"] = {"stopped_after_deaths": 40}
    return total


def run(ctx):
    thorough = ctx.tier == "thorough"
    mc = C.run_tlc(ctx, "TLDecoder", "TLDecoder5.cfg" if thorough else "TLDecoder.cfg", workers=C.NCPU, timeout=3000)
    for d in ("EnumWhereObjectPanics", "WrongInterfacePanics", "AllocByAnnouncedCount"):
        C.run_tlc(ctx, "TLDecoder", "TLDecoderDev%s.cfg" % d, workers=4, expect_violation=True, timeout=300, tag="sensitivity:" + d)
    schema, _ = p_codec.extract(ctx)
    cases, ncases = p_codec.generate(ctx, schema, 1 if thorough else 6)
    rep = fuzz(ctx, cases, 3 if thorough else 40, ctx.seed, 48 if thorough else 24)
    for d in rep["disagreements"]:
        ctx.disagreement(d["sig"], d["detail"], d["case"])
    # decoding from several goroutines at once (the client decodes in its receive loop while callers decode nothing, but
    # several clients of one process do): first use of every type inside a spin barrier, fresh processes
    p_codec.concurrent(ctx, cases, "C15", thorough, kinds=("decode", "process-died"))
    C.write_evidence(ctx, "model_checking", {
        "states": mc.distinct, "transitions": mc.generated, "traces_validated_against_impl": rep["evaluations"],
        "evaluations": rep["evaluations"], "distinct_nontrivial": rep["extra"].get("classes", 2),
        "rule": "TLDecoder: every word stream up to %d words over 15 word classes (struct / enum / vector / Bool / null / unregistered ids, "
                "boundary integers) x {with, without vector hint} through the expectation-stack machine: Total (never panic), "
                "AllocBounded, bounded steps, termination; the three as-coded deviations must each break it. Mutants of valid images of "
                "every %s constructor image: every word-aligned and some unaligned truncations, each of the first %d words replaced by "
                "each of 22 word classes, container counts / sizes, broken gzip bodies; decoded as unknown object (4 hint settings) and "
                "as the named type under recover, a 3 s watchdog, allocation accounting (64 x input + 1 MiB) and a 12 GiB address-space "
                "limit; distinct = mutation classes" % (5 if thorough else 4, "3rd" if thorough else "40th", 48 if thorough else 24),
        "samples": rep["samples"], "exhaustive": False, "disagreement_signatures": rep["sig_counts"],
    }, ["value-versus-error on corrupted input is deliberately not specified", "gzip expansion is exempt from the allocation bound"])


def replay(ctx, path):
    rec = json.load(open(path))
    print("C15 replay: class %s bytes %s" % (rec["case"].get("class"), rec["case"].get("bytes")))
    ctx.seed = rec["seed"]
    run(ctx)
