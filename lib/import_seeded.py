#!/usr/bin/env python3
"""Imports what the sub-agents of a seeded round delivered: <src>/<Cxx>/<A|B>/{patch.diff, demo/, author_meta.json}
   -> seeded/<Cxx>_<k>/ (A -> k0, B -> k0 + 1).  usage: import_seeded.py <src> <k0>"""
import json
import os
import shutil
import sys

VERIF = os.path.dirname(os.path.dirname(os.path.abspath(__file__)))
src, k0 = sys.argv[1], int(sys.argv[2])
for pid in sorted(os.listdir(src)):
    for j, ab in enumerate(("A", "B")):
        d = os.path.join(src, pid, ab)
        if not (os.path.exists(os.path.join(d, "patch.diff")) and os.path.exists(os.path.join(d, "author_meta.json")) and os.path.isdir(os.path.join(d, "demo"))):
            print(pid, ab, "incomplete")
            continue
        dst = os.path.join(VERIF, "seeded", "%s_%d" % (pid, k0 + j))
        if os.path.exists(dst):
            continue
        os.makedirs(dst)
        shutil.copy(os.path.join(d, "patch.diff"), dst)
        shutil.copy(os.path.join(d, "author_meta.json"), dst)
        shutil.copytree(os.path.join(d, "demo"), os.path.join(dst, "demo"))
        json.load(open(os.path.join(dst, "author_meta.json")))
        print(pid, ab, "->", os.path.basename(dst))
