"""C06 / C07 - key exchange (spec/Handshake.tla, HandshakeGen.tla, HandshakeTrace.tla)."""
import json
import os
import random

import common as C
import p_session as S

DEVS = ["StripNewNonce", "StripServerNonce", "StripNonceHash", "StripGAB", "RsaLeftAligned", "SkipExchangeWhenKeyInMemory"]


def hs_normalise(sid, events, lying):
    out = [{"e": "Reset", "sc": sid, "lying": lying}]
    for e in events:
        k = e["e"]
        if k == "HSDone":
            out.append({"e": k, "keyid": e["keyid"], "salt": e["salt"]})
        elif k == "Stored":
            out.append({"e": k, "keyid": e["keyid"], "salt": e["salt"]})
        elif k == "Connected":
            out.append({"e": k, "keyid": e["keyid"], "salt": e["salt"], "keylen": e.get("keylen", 0)})
        elif k in ("ConnectError", "ConnectPanic", "Dead"):
            out.append({"e": k})
        elif k == "Wire":
            out.append({"e": k, "keyok": bool(e.get("keyok")), "msgkeyok": bool(e.get("msgkeyok")), "saltok": bool(e.get("saltok", False))})
        elif k == "Timeout":
            out.append({"e": k, "waiting": e.get("waiting", "")})
        elif k == "Retry":
            out.append({"e": k, "lying": bool(e.get("lying"))})
        elif k == "End":
            out.append({"e": k})
        else:
            out.append({"e": "Other"})
    return out


def hs_run(ctx, scs, family):
    by = S.run_children(ctx, scs, batch=4, timeout=2000)
    trace = []
    for s in scs:
        trace.extend(hs_normalise(s["id"], by.get(s["id"], []), bool(s["hs"].get("lie"))))
    tp = os.path.join(ctx.wd, "hs_trace-%s.ndjson" % family)
    C.write_ndjson(tp, trace)
    out = tp + ".verdicts"
    tv = C.run_tlc(ctx, "HandshakeTrace", "HandshakeTrace.cfg", workers=1, env={"VERIF_TRACE": tp, "VERIF_OUT": out}, timeout=1800,
                   tag="trace-validation")
    if not os.path.exists(out):
        raise C.Broken("HandshakeTrace wrote no verdicts:\n" + tv.out[-2000:])
    verdicts = C.read_ndjson(out)
    scen = {s["id"]: s for s in scs}
    for v in verdicts:
        s = scen[v["sc"]]
        h = s["hs"]
        cls = "lie=%s.%s.%s" % (h["lie"]["Step"], h["lie"]["Field"], h["lie"]["How"]) if h.get("lie") else "corner=%s:lz=%s" % (h.get("corner"), h.get("lz"))
        if h.get("retry"):
            cls = "second-attempt-after:" + cls
        if h.get("lie2"):
            cls += ":then-lie=%s.%s.%s" % (h["lie2"]["Step"], h["lie2"]["Field"], h["lie2"]["How"])
        evs = by.get(v["sc"], [])
        ctx.disagreement("%s:%s" % (v["kind"], cls), "key exchange %s: %s" % (cls, v["kind"]),
                         {"scenario": s, "verdict": v, "events": [e for e in evs if e["e"] != "Gate"][:80]})
    return len(trace), verdicts


def model(ctx, sens):
    mc = C.run_tlc(ctx, "Handshake", "Handshake.cfg", workers=C.NCPU, timeout=900)
    for c in sens:
        C.run_tlc(ctx, "Handshake", "Handshake%s.cfg" % c, workers=4, expect_violation=True, timeout=300, tag="sensitivity:" + c)
    return mc


def gen_cases(ctx):
    c, l = os.path.join(ctx.wd, "hs_corners.ndjson"), os.path.join(ctx.wd, "hs_lies.ndjson")
    C.run_tlc(ctx, "HandshakeGen", "HandshakeGen.cfg", workers=1, env={"VERIF_OUT": c, "VERIF_OUT2": l}, timeout=300, tag="generate")
    return C.read_ndjson(c), C.read_ndjson(l)


def run(ctx):
    thorough = ctx.tier == "thorough"
    mc = model(ctx, ["Dev" + d for d in DEVS])
    corners, _ = gen_cases(ctx)
    rng = random.Random(ctx.seed)
    scs = []
    sid = 0
    steps = [{"a": "Probe", "tag": 90}, {"a": "Settle"}]
    for k in range(3 if thorough else 1):
        for c in corners:
            sid += 1
            scs.append(S.mk(sid, "corner", "handshake", steps, fresh=True, hs={"corner": c["corner"], "lz": c["lz"]}, seed=ctx.seed * 100 + sid))
    for k in range(400 if thorough else 40):     # honest exchanges with whatever values are drawn
        sid += 1
        # every fourth on a store that says "nothing stored" with (nil, nil) instead of a not-found error
        scs.append(S.mk(sid, "honest", "handshake", steps, fresh=True, hs={"corner": "", "lz": 0}, seed=ctx.seed * 100000 + sid, nilstore=(k % 4 == 3)))
    # a client object whose first exchange was abandoned (at each step of the exchange) is connected again, to a conformant server
    # (Handshake!Again): the second attempt is an exchange like any other
    for step, field, how in (("dhGen", "kind", "retry"), ("dhGen", "kind", "fail"), ("dhGen", "new_nonce_hash", "flip"), ("dhGen", "nonce", "fresh"),
                             ("dhParams", "answer_hash", "flip"), ("dhInner", "server_nonce", "flip"), ("resPQ", "nonce", "flip"),
                             ("resPQ", "fingerprints", "none")):
        sid += 1
        scs.append(S.mk(sid, "second-attempt", "handshake", steps, fresh=True, seed=ctx.seed * 100 + sid,
                        hs={"corner": "", "lz": 0, "retry": True, "lie": {"Step": step, "Field": field, "How": how, "Bit": rng.randrange(64)}}))
    nev, verdicts = hs_run(ctx, scs, "c06")
    C.write_evidence(ctx, "model_checking", {
        "states": mc.distinct, "transitions": mc.generated, "traces_validated_against_impl": len(scs),
        "evaluations": nev, "distinct_nontrivial": len(scs),
        "rule": "Handshake.tla: every assignment of 0/1/2 leading zero bytes to {nonce, server_nonce, new_nonce, new_nonce_hash1, RSA block, "
                "g^ab} x every lie: Agreement, completion, StoredIffDone; each Strip*/RsaLeftAligned deviation must break it. Real key "
                "exchanges against the reference server in child processes: every corner forced (server draws via refsrv.HS, client draws "
                "via verif hooks; g_a/g_b/g^ab/hash/RSA corners by search), pq shapes up to 2^64, plus unforced honest exchanges; key id, "
                "salt, stored session and the first encrypted request judged by TLC (HandshakeTrace)",
        "samples": scs[:2] + scs[-1:], "exhaustive": False, "verdict_kinds_seen": sorted({v["kind"] for v in verdicts}),
    }, ["the reference server's handshake arithmetic is independent of /repo (own TL, RSA private op, DH, SHA-1 mixes)",
        "leading-zero corners are forced with 64-bit DH exponents to make the search cheap; the group is Telegram's 2048-bit prime"])


def replay(ctx, path):
    rec = json.load(open(path))
    sc = rec["case"]["scenario"]
    sc["id"] = 1
    nev, verdicts = hs_run(ctx, [sc], "replay")
    print("replayed key exchange %s: %s" % (sc["hs"], [v["kind"] for v in verdicts] or "agrees"))
