#!/usr/bin/env python3
"""Runs the checks against every confirmed seeded change: apply to /repo, run, undo straight afterwards.
   usage: run_seeded.py [--tier quick] [--extra C01,C02] [ids...]; writes seeded/<id>/detect.json and seeded/MATRIX.md
   Never commits anything in /repo; refuses to start on a dirty tree."""
import json
import os
import re
import subprocess
import sys
import time

VERIF = os.path.dirname(os.path.dirname(os.path.abspath(__file__)))
SEEDED = os.path.join(VERIF, "seeded")
# checks other than the change's own property that could see it too
ALSO = {"C06_1": ["C01", "C02"], "C09_2": ["C10", "C16"], "C11_2": ["C09"], "C04_1": ["C08"], "C13_1": ["C01"], "C13_2": ["C02"], "C15_1": ["C09"]}


def clean():
    r = subprocess.run(["git", "-C", "/repo", "status", "--porcelain"], capture_output=True, text=True)
    return r.stdout.strip() == ""


def main():
    args = sys.argv[1:]
    tier = "quick"
    if "--tier" in args:
        i = args.index("--tier")
        tier = args[i + 1]
        del args[i:i + 2]
    ids = args or sorted(x for x in os.listdir(SEEDED) if os.path.isdir(os.path.join(SEEDED, x)))
    if not clean():
        sys.exit("/repo has uncommitted changes")
    for mid in ids:
        d = os.path.join(SEEDED, mid)
        if os.path.exists(os.path.join(d, "retired.json")):
            print(mid, "retired (see retired.json)", flush=True)
            continue
        if subprocess.run(["git", "-C", "/repo", "apply", "--check", os.path.join(d, "patch.diff")], capture_output=True).returncode != 0:
            print(mid, "PATCH DOES NOT APPLY to the current tree: rebase it (lib/confirm_seeded.py afterwards)", flush=True)
            continue
        prop = mid.split("_")[0]
        res = {"id": mid, "tier": tier, "seed": os.environ.get("VERIF_SEED", "1"), "checks": {}}
        for pid in [prop] + ALSO.get(mid, []):
            subprocess.run(["git", "-C", "/repo", "apply", os.path.join(d, "patch.diff")], check=True)
            t0 = time.time()
            try:
                r = subprocess.run([os.path.join(VERIF, "check"), pid, "--tier", tier], capture_output=True, text=True, cwd=VERIF, timeout=7200,
                                   env=dict(os.environ, VERIF_EVIDENCE_DIR=os.path.join(VERIF, ".work", "seeded-evidence")))
            finally:
                subprocess.run(["git", "-C", "/repo", "checkout", "--", "."], check=True)
                subprocess.run(["git", "-C", "/repo", "clean", "-fdq"], check=True)
            sigs = re.findall(r"^  signature=(.*)$", r.stdout, re.M)
            res["checks"][pid] = {"exit": r.returncode, "violation_lines": len(re.findall(r"^VIOLATION ", r.stdout, re.M)),
                                  "signatures": sorted(set(sigs))[:6], "seconds": round(time.time() - t0, 1)}
            # replays written under the change are of no use afterwards
            for f in os.listdir(os.path.join(VERIF, "replays")) if os.path.isdir(os.path.join(VERIF, "replays")) else []:
                if f.startswith(pid + "-"):
                    os.remove(os.path.join(VERIF, "replays", f))
            print(mid, pid, "exit", r.returncode, sorted(set(sigs))[:3], flush=True)
        json.dump(res, open(os.path.join(d, "detect.json"), "w"), indent=1)
    assert clean()


if __name__ == "__main__":
    main()
