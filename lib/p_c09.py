"""C09 - each RPC call returns exactly its own result (spec/Client.tla, ClientTrace.tla)."""
import random

import common as C
import p_session as S


def model_check(ctx, thorough):
    mc = C.run_tlc(ctx, "Client", "Client.cfg", workers=C.NCPU, timeout=1800)
    if thorough:
        C.run_tlc(ctx, "Client", "Client3.cfg", workers=C.NCPU, timeout=3000)
        C.run_tlc(ctx, "Client", "ClientResumed.cfg", workers=C.NCPU, timeout=1800)
        # everything at once: rotation, an item nobody waits for, a close, object and vector results (1.7 M states)
        C.run_tlc(ctx, "Client", "ClientAll.cfg", workers=C.NCPU, timeout=3000)
    return mc


def scenarios(ctx, thorough):
    rng = random.Random(ctx.seed)
    scs = []
    sid = 0
    hists = S.tlc_schedules(ctx, "ClientGenOrder.cfg", 400 if thorough else 60)
    for h in hists[: (300 if thorough else 40)]:
        sid += 1
        scs.append(S.mk(sid, "tlc-order", "dispatch", S.project(h, rng, S.ALL_KINDS), gates=["send.genid"], fresh=(sid % 9 == 0)))
    # behaviours of the model with vector results (hints), gzip-packed answers and an item nobody waits for
    hists = S.tlc_schedules(ctx, "ClientGenHints.cfg", 400 if thorough else 60)
    for h in hists[: (250 if thorough else 30)]:
        sid += 1
        scs.append(S.mk(sid, "tlc-hints", "dispatch", S.project(h, rng, S.ALL_KINDS), gates=["send.genid"]))
    # behaviours in which the application also makes calls that fail at serialisation (Client!EncodeFail) between the others' steps
    hists = [h for h in S.tlc_schedules(ctx, "ClientGenBad.cfg", 300 if thorough else 60) if any(x.get("a") == "BadCall" for x in h)]
    for h in hists[: (150 if thorough else 20)]:
        sid += 1
        scs.append(S.mk(sid, "tlc-badcall", "dispatch", S.project(h, rng, S.ALL_KINDS), gates=["send.genid"]))
    # the named one: a request is waiting for its result (of each kind) when another goroutine's call fails at serialisation
    for kind in S.ALL_KINDS:
        sid += 1
        scs.append(S.mk(sid, "badcall-while-waiting", "dispatch", [S.call("c1", 11, kind), {"a": "Sleep", "n": 60}, {"a": "BadCall"},
                        {"a": "Answer", "tags": [11], "n": 400}, {"a": "Drain"}, {"a": "Settle"}]))
    # a clock that stands still or is set back while several requests are outstanding: every caller still gets its own result
    for clock in ("frozen", "stepback"):
        for n in (3, 5):
            sid += 1
            cs = ["c%d" % i for i in range(1, n + 1)]
            scs.append(S.mk(sid, "clock-%s-%d" % (clock, n), "dispatch",
                            [{"a": "Probe", "tag": 90}, {"a": "Probe", "tag": 91}, {"a": "Probe", "tag": 92}, {"a": "Probe", "tag": 93}] +
                            [S.call(c, 10 + i, S.ALL_KINDS[i % len(S.ALL_KINDS)]) for i, c in enumerate(cs)] +
                            [{"a": "Answer", "tags": [10 + i for i in reversed(range(n))], "container": True, "n": 400}, {"a": "Drain"}, {"a": "Settle"}], clock=clock))
    # the answer arrives while the caller is still inside the send section
    for kind in S.ALL_KINDS:
        for gz in (False, True):
            sid += 1
            scs.append(S.mk(sid, "answer-before-send-returns", "dispatch",
                            [S.call("c1", 11, kind), {"a": "Answer", "tags": [11], "gzip": [gz], "n": 400}, {"a": "Release", "c": "c1"},
                             {"a": "Drain"}, {"a": "Settle"}], gates=["send.written"]))
            # ... and has been read and dispatched by the loop before the caller leaves the send section
            sid += 1
            scs.append(S.mk(sid, "answer-dispatched-before-send-returns", "dispatch",
                            [S.call("c1", 11, kind), {"a": "Answer", "tags": [11], "gzip": [gz], "n": 400}, {"a": "Sleep", "n": 250},
                             {"a": "Release", "c": "c1"}, {"a": "Drain"}, {"a": "Settle"}], gates=["send.written"]))
    # results that stand behind an item the client cannot use (a result nobody waits for, an object of a newer layer,
    # a cut body) in the same container still reach their callers
    for junk in S.JUNK:
        sid += 1
        scs.append(S.mk(sid, "results-behind-" + junk, "dispatch",
                        [S.call("c%d" % i, 30 + i, k) for i, k in enumerate(S.ALL_KINDS)] +
                        [{"a": "Answer", "tags": [32, 30, 34, 31, 33], "container": True, "gzip": [False, True, False, False, True],
                          "junk": junk, "junkat": "first", "n": 600}, {"a": "Drain"}, {"a": "Settle"}]))
    # the server answers - one container, one frame - and closes right behind it: the results are in the client's hands,
    # that their acknowledgements can no longer be written takes nothing away from the callers.  (Several frames would not
    # do: the reset that answers the client's first acknowledgement discards what the client has not read yet, and the
    # reference server does not send unacknowledged answers again.)
    for k in range(4):
        sid += 1
        tags = [42, 40, 44, 41, 43]
        scs.append(S.mk(sid, "answers-then-close", "dispatch",
                        [S.call("c%d" % i, 40 + i, kd) for i, kd in enumerate(S.ALL_KINDS)] +
                        [{"a": "Answer", "tags": tags[k:] + tags[:k], "container": True, "gzip": [k % 2 == 1, False, k > 1, False, False], "n": 600, "abort": True},
                         {"a": "Drain"}, {"a": "Sleep", "n": 200}, {"a": "Probe", "tag": 95}, {"a": "Settle"}]))
    # every result kind alone and in a container with gzip variants
    sid += 1
    scs.append(S.mk(sid, "all-kinds-one-container", "dispatch",
                    [S.call("c%d" % i, 20 + i, k) for i, k in enumerate(S.ALL_KINDS)] +
                    [{"a": "Answer", "tags": [24, 22, 20, 23, 21], "container": True, "gzip": [True, False, True, False, True]},
                     {"a": "Drain"}, {"a": "Settle"}]))
    for k in range(12 if thorough else 3):
        sid += 1
        scs.append(S.mk(sid, "random", "dispatch", mode="random", callers=8, calls=3, rotate=0, kinds=S.ALL_KINDS,
                        gates=["send.genid", "send.written"], seed=ctx.seed * 1000 + k))
    return scs


def run(ctx):
    thorough = ctx.tier == "thorough"
    mc = model_check(ctx, thorough)
    C.run_tlc(ctx, "Client", "ClientDevGenIdOutsideLock.cfg", workers=4, expect_violation=True, timeout=300, tag="sensitivity:GenIdOutsideLock")
    mh = C.run_tlc(ctx, "Client", "ClientHints.cfg", workers=C.NCPU, timeout=1800, tag="ClientHints.cfg")
    C.run_tlc(ctx, "Client", "ClientBad.cfg", workers=C.NCPU, timeout=1800, tag="ClientBad.cfg")
    C.run_tlc(ctx, "Client", "ClientDevCleanupOnEncodeFail.cfg", workers=4, expect_violation=True, timeout=300, tag="sensitivity:CleanupLastIdOnEncodeFail")
    for d in ("HintKeyedByServerId", "NoHintInsideGzip"):
        C.run_tlc(ctx, "Client", "ClientDev%s.cfg" % d, workers=4, expect_violation=True, timeout=300, tag="sensitivity:" + d)
    scs = scenarios(ctx, thorough)
    st = S.judge(ctx, scs, S.K_RESULT | S.K_LIVE, "dispatch")
    C.write_evidence(ctx, "model_checking", {
        "states": mc.distinct + mh.distinct, "transitions": mc.generated + mh.generated, "traces_validated_against_impl": st["scenarios"],
        "evaluations": st["events"], "distinct_nontrivial": st["scenarios"],
        "rule": "Client.tla: 2 callers (3 in thorough), salt rotations, any server grouping - OwnResult, no stall, liveness; ClientHints.cfg: "
                "object and vector results, gzip-packed or not - TypedVector, LoopAlive (hints looked up under the server's id, or not "
                "reaching gzip, must each kill the loop); behaviours of that model (kinds, gzip, junk items) and schedules from "
                "tlc -simulate of the same module (caller start / release at the send gate / answers with grouping) replayed with real "
                "goroutines held at hook gates, result kinds object/Bool/Vector<int>/Vector<object>/rpc_error, gzip subsets; plus "
                "seeded 8-goroutine runs; every recorded event judged by TLC (ClientTrace); one scenario = one trace",
        "samples": st["sample"], "exhaustive": False, "verdict_kinds_seen": st["verdict_kinds"], "kinds_not_judged_here": st["ignored_kinds"],
    }, ["the reference server (harness/refsrv) is an independent implementation; its envelope is checked against EnvelopeTerm by C03",
        "gates (build tag verif) only steer schedules; verdicts come from what the server and the callers observed"])


def replay(ctx, path):
    import json
    rec = json.load(open(path))
    sc = rec["case"]["scenario"]
    sc["id"] = 1
    import importlib
    kinds = S.K_RESULT | S.K_LIVE | S.K_WIRE | S.K_SALT | S.K_CONN
    st = S.judge(ctx, [sc] * 1, kinds, sc.get("family", "replay"))
    print("replayed scenario '%s': verdict kinds %s" % (sc.get("name"), st["verdict_kinds"]))
