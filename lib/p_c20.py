"""C20 - resolving a Telegram link (spec/DeeplinkDef.tla, spec/Deeplink.tla)."""
import json
import os

import common as C


def run(ctx):
    thorough = ctx.tier == "thorough"
    # 1. model checking: the implementation-shaped machine ends in Resolve(link) whatever
    #    order the template table is walked in; never panics; terminates.
    mc = C.run_tlc(ctx, "Deeplink", "Deeplink3.cfg" if thorough else "Deeplink.cfg", workers=C.NCPU, timeout=900)
    # 2. sensitivity of the model: the as-coded bare-host slicing must violate Total
    C.run_tlc(ctx, "Deeplink", "DeeplinkDevBare.cfg", workers=2, expect_violation=True, timeout=300,
              tag="sensitivity:BareHostIndexMinusOne")
    # 3. generation of the case set (every shape with its declared outcome)
    out = os.path.join(ctx.wd, "deeplink_cases.ndjson")
    C.run_tlc(ctx, "DeeplinkGen", "DeeplinkGen3.cfg" if thorough else "DeeplinkGen.cfg", workers=1,
              env={"VERIF_OUT": out}, timeout=600, tag="generate")
    ncases = sum(1 for _ in open(out))
    # 4a. the first resolutions of a process, from 96 goroutines released together (several fresh processes)
    crep = C.run_harness_phase(ctx, ["deeplinkconc", "-seed", str(ctx.seed), "-children", "1500" if thorough else "300"],
                               "process-died:first-use-under-concurrency", "concurrent first use", timeout=900)
    for d in (crep or {}).get("disagreements", []):
        ctx.disagreement(d["sig"], d["detail"], d["case"])
    # 4. replay into deeplinks.Resolve built from the working tree
    r = C.run_harness(ctx, ["deeplink", "-cases", out, "-seed", str(ctx.seed),
                            "-concretisations", "4" if thorough else "2",
                            "-reps", "20", "-random", "400000" if thorough else "40000"], timeout=1800)
    rep = json.loads(r.stdout)
    for d in rep["disagreements"]:
        ctx.disagreement(d["sig"], d["detail"], d["case"])
    C.write_evidence(ctx, "model_checking", {
        "states": mc.distinct, "transitions": mc.generated,
        "traces_validated_against_impl": ncases,
        "evaluations": rep["evaluations"], "distinct_nontrivial": rep["distinct"],
        "rule": "every link shape of DeeplinkDef!Links (5 schemes x 9 hosts x 2 ports x paths of 0..%d segments over 6 "
                "segment classes x query x fragment) enumerated by TLC with its declared outcome, rendered to seeded "
                "concrete strings, Resolve run 20 times each (map order); distinct = distinct concrete strings; plus "
                "unstructured strings for totality; one goroutine per CPU making the first calls of a fresh process at the same instant (300 / 1500 fresh processes)" % (3 if thorough else 2),
        "samples": rep["samples"], "exhaustive": True, "shapes": ncases,
        "disagreement_signatures": rep["sig_counts"],
    }, ["net/url parsing and strings.ToLower are trusted", "segment classes stand for their seeded concretisations"])


def replay(ctx, path):
    rec = json.load(open(path))
    link = rec["case"]["link"]
    out = os.path.join(ctx.wd, "one.ndjson")
    shape = rec["case"].get("shape")
    if shape is None:
        raise C.Broken("replay of unstructured string: run `verif deeplink` with -random")
    C.write_ndjson(out, [shape])
    r = C.run_harness(ctx, ["deeplink", "-cases", out, "-seed", str(rec["seed"]), "-random", "0"])
    rep = json.loads(r.stdout)
    for d in rep["disagreements"]:
        ctx.disagreement(d["sig"], d["detail"], d["case"])
    print("replayed", link, "->", rep["sig_counts"] or "agrees")
