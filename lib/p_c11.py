"""C11 - salt rotation (spec/Client.tla, ClientTrace.tla)."""
import random

import common as C
import p_session as S
from p_c09 import model_check, replay  # noqa: F401


def scenarios(ctx, thorough):
    rng = random.Random(ctx.seed + 11)
    scs = []
    sid = 0
    hists = S.tlc_schedules(ctx, "ClientGenSalt.cfg", 600 if thorough else 90)
    with_rot = [h for h in hists if any(x["a"] == "Rotate" for x in h)]
    for h in with_rot[: (400 if thorough else 45)]:
        sid += 1
        scs.append(S.mk(sid, "tlc-salt", "salt", S.project(h, rng, ["object", "bool", "vecint", "vecobj"]), gates=["send.genid"], fresh=(sid % 3 == 0)))
    P = lambda t: {"a": "Probe", "tag": t}
    named = {
        "rotate-before-first-call": [{"a": "Rotate"}, S.call("c1", 11), {"a": "Drain"}, P(90)],
        "accepted-pending-then-other-rejected": [S.call("c1", 11), {"a": "Sleep", "n": 30}, {"a": "Rotate"}, S.call("c2", 12), {"a": "Sleep", "n": 60},
                                                 {"a": "Answer", "tags": [12], "n": 400}, {"a": "Answer", "tags": [11], "n": 400}, {"a": "Drain"}, P(90)],
        "two-rotations": [{"a": "Rotate"}, S.call("c1", 11), {"a": "Drain"}, {"a": "Rotate"}, S.call("c2", 12), {"a": "Drain"}, P(90)],
        "three-rotations-many-pending": [S.call("c1", 11), S.call("c2", 12), {"a": "Sleep", "n": 30}, {"a": "Rotate"}, S.call("c3", 13), {"a": "Sleep", "n": 40},
                                         {"a": "Rotate"}, S.call("c4", 14), {"a": "Sleep", "n": 40}, {"a": "Rotate"}, S.call("c5", 15), {"a": "Drain"}, P(90)],
        "rotation-while-nothing-pending": [P(90), {"a": "Rotate"}, {"a": "Push", "what": "api_object"}, {"a": "Settle"}, P(91)],
        # a rejected request keeps what it registered with the decoder when it is sent again; several requests rejected by one rotation
        "vector-requests-rejected": [{"a": "Rotate"}, S.call("c1", 11, "vecint"), S.call("c2", 12, "vecobj"), S.call("c3", 13, "bool"),
                                     {"a": "Answer", "tags": [12, 11, 13], "container": True, "gzip": [True, False, False], "n": 800}, {"a": "Drain"}, P(90)],
        "new-session-announces-salt": [P(90), {"a": "Push", "what": "new_session_newsalt"}, {"a": "Settle"}, P(91)],
    }
    # the library's own file store under a resumed and under a fresh session: every adopted salt is in the file
    for fresh in (False, True):
        sid += 1
        scs.append(S.mk(sid, "file-store-rotations", "salt",
                        [P(90), {"a": "Rotate"}, P(91), {"a": "Drain"}, {"a": "Rotate"}, P(92), {"a": "Push", "what": "new_session_newsalt"}, {"a": "Settle"},
                         P(93), {"a": "Settle"}], fresh=fresh, filestore=True))
    # two salts announced in quick succession to a store whose first write lands late: the salt in the store at the end is the
    # one in use (the writes of successive salts stay in order)
    for k in (2, 3):
        sid += 1
        scs.append(S.mk(sid, "two-salts-slow-first-store", "salt", [P(90)] + [{"a": "Push", "what": "new_session_newsalt"}] * k +
                        [{"a": "Sleep", "n": 900}, P(91), {"a": "Settle"}], slowfirst=True))
    # the rejection is processed while the sender is still inside the send section
    for fresh in (False, True):
        sid += 1
        scs.append(S.mk(sid, "rejection-before-send-returns", "salt",
                        [P(90), {"a": "Rotate"}, S.call("c1", 11), {"a": "Sleep", "n": 80}, {"a": "Release", "c": "c1"}, {"a": "WaitParked", "c": "c1"},
                         {"a": "Sleep", "n": 40}, {"a": "Drain"}, P(91), {"a": "Settle"}], gates=["send.written"], fresh=fresh))
    for h in with_rot[:(60 if thorough else 8)]:
        sid += 1
        scs.append(S.mk(sid, "tlc-salt-written-gate", "salt", S.project(h, rng, ["object"]), gates=["send.written"]))
    for name, steps in named.items():
        for fresh in (False, True):
            sid += 1
            scs.append(S.mk(sid, name, "salt", steps + [{"a": "Settle"}], fresh=fresh))
    for k in range(16 if thorough else 4):
        sid += 1
        scs.append(S.mk(sid, "random-rotations", "salt", mode="random", callers=6, calls=3, rotate=3, kinds=["object", "bool", "vecint"],
                        gates=["send.genid"], seed=ctx.seed * 1000 + 700 + k, fresh=(k % 2 == 1)))
    return scs


def run(ctx):
    thorough = ctx.tier == "thorough"
    mc = model_check(ctx, thorough)
    if not thorough:
        C.run_tlc(ctx, "Client", "ClientResumed.cfg", workers=C.NCPU, timeout=1800)
    C.run_tlc(ctx, "Client", "ClientDevNotifyAllOnBadSalt.cfg", workers=4, expect_violation=True, timeout=300, tag="sensitivity:NotifyAllOnBadSalt")
    C.run_tlc(ctx, "Client", "ClientDevBothResumed.cfg", workers=4, expect_violation=True, timeout=300,
              tag="sensitivity:NotifyAllOnBadSalt+StaleEntryAfterNotify")
    scs = scenarios(ctx, thorough)
    st = S.judge(ctx, scs, S.K_SALT | S.K_LIVE | S.K_RESULT, "salt")
    C.write_evidence(ctx, "model_checking", {
        "states": mc.distinct, "transitions": mc.generated, "traces_validated_against_impl": st["scenarios"],
        "evaluations": st["events"], "distinct_nontrivial": st["scenarios"],
        "rule": "Client.tla: 2 callers, up to 2 rotations at any moment, fresh-key and resumed sessions - AcceptedNeverResent, SaltPersisted, no "
                "stall of the loop, every caller done and the loop reading again (liveness under weak fairness); NotifyAllOnBadSalt (fresh key) "
                "and NotifyAll+StaleEntry (resumed) must each stall; schedules with >= 1 rotation from tlc -simulate, the named regression "
                "histories (first rotation after a key exchange, second rotation, accepted request pending while another is rejected, "
                "announced salt), seeded runs with 3 rotations; the reference server enforces salts; judged by TLC (ClientTrace)",
        "samples": st["sample"], "exhaustive": False, "verdict_kinds_seen": st["verdict_kinds"], "kinds_not_judged_here": st["ignored_kinds"],
    }, ["a stall is reported only with a recorded time-out plus goroutine dump of the client", "salts are compared as the server decrypted them"])
