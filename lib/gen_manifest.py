#!/usr/bin/env python3
"""Regenerates /verif/MANIFEST.json from the table below (keeps it schema-valid)."""
import json
import os

VERIF = os.path.dirname(os.path.dirname(os.path.abspath(__file__)))

# id -> (category, technique, level text, level note, design ref)
CLAIMED = {
    "C20": ("model_checking",
            "TLA+ spec (Deeplink.tla) model-checked with TLC; TLC-enumerated link shapes replayed into deeplinks.Resolve",
            "TLC checks exhaustively that the implementation-shaped resolution machine ends in the declared meaning Resolve(link) for every link shape and every order of the template table (the code walks a Go map), never reaching a panic state; every shape with its declared outcome is then replayed, in seeded concretisations and 20 repetitions, into the real deeplinks.Resolve. Exhaustive over the structured space, sampled over concretisations - the right level for a pure total function of a string.",
            "net/url and strings.ToLower trusted; scheme-less+port, percent-escapes and empty inner segments are left open (no-panic only) because the statement is silent about them",
            "5 C20"),
    "C17": ("model_checking",
            "TLA+ spec (RpcErrorDef/RpcError.tla) model-checked with TLC; TLC-enumerated error texts replayed into RpcErrorToNative/TryExpandError; Bootstrap.tla (application client: config -> data-centre list -> migration) model-checked, its cases replayed through telegram.NewClient against four live servers and judged by TLC (BootstrapTrace.tla)",
            "TLC checks exhaustively over ~6.6k token-structured error texts that the table-scan machine shaped like TryExpandError ends in the declared (message, parameter), never in a panic state, and that at most one table row yields a numeric parameter (precedence cannot matter); every text with its declared outcome is replayed in seeded concretisations into the real functions, and every catalogued error name extracted from errors.go is checked against its description.",
            "strconv.Atoi trusted; texts whose parameter is not a plain in-range decimal are open (no panic, structured error) as the statement demands no more; end-to-end delivery and PHONE_MIGRATE handling are covered by the session-engine harness when built",
            "5 C17"),
    "C12": ("model_checking",
            "TLA+ spec (SessionStore.tla) model-checked with TLC; op sequences executed on real files and trace-validated by TLC (SessionStoreTrace.tla); Lifecycle.tla and Bootstrap.tla behaviours (restart / NewClient on a session file) replayed and judged by TLC",
            "TLC checks exhaustively (2 loaders, 2 sessions, 4 clock values) that with the mtime-keyed cache of the implementation a load always returns the last stored session, notfound or error for a torn file, and that NoInvalidateOnStore / CoarseForeign each break it; then every op sequence up to length 4 (5 in thorough) over Store/Load/Tick/Crash and every crash prefix of the file is executed on real files through session.NewFromFile and each recorded event is judged by TLC against the specification.",
            "file-system clock modelled by os.Chtimes to an abstract clock; torn file = strict prefix of the whole-file write; the resume-without-key-exchange half is exercised by the session-engine harness when built",
            "5 C12"),
    "C08": ("model_checking",
            "TLA+ spec (Transport.tla) model-checked with TLC over every segmentation; real loopback-TCP runs judged by TLC against TransportObs.tla",
            "TLC explores every way the network can split the byte stream (any k units at a time) for both modes, small and escape-length frames, empty bodies, close at a boundary and inside a frame, and checks delivered = prefix of sent, mode detected, EOF only after all complete frames, error only on a torn frame, termination; ShortRead alone must break it. About 3k real runs over loopback TCP (segmenting writer with cuts inside announcement and headers, all subsets for a short stream, error-code frames, mid-frame close, byte-exact capture of the write direction) are each judged by TLC against the observable-level specification, including the exact header bytes FrameHeader(mode, n).",
            "loopback TCP with TCP_NODELAY and pauses realises the cuts; frames carry random bytes; a torn frame may surface as error or EOF (statement forbids only a message)",
            "5 C08"),
    "C05": ("model_checking",
            "TLA+ specs (IGE.tla parametric; IGEToy.tla finite algebra model-checked; IGETerm.tla term instance) with TLC; toy behaviours and term cases replayed into internal/aes_ige",
            "TLC checks exhaustively on a finite algebra (2-bit blocks, all 24 permutation keys, all IVs, all messages of 1..2 (3 in thorough) blocks, both directions) that the block loop with its registers modelled as aliasing locations computes exactly the IGE definition, that decryption inverts encryption and that the caller's input is never written; the same ~15k behaviours are stepped through the real block loop with the permutation as cipher (hook), and the term instance of the same definition (real AES), the temp-key derivation for nonces with leading zero bytes, the wrapper for every payload length in both directions and the length validation are checked against the real functions with seeded inputs.",
            "AES block and SHA-1 trusted (Go standard library); the toy instance covers algebra and aliasing, the term instance covers layout/width/padding with real primitives",
            "5 C05"),
    "C03": ("model_checking",
            "TLA+ specs (Envelope.tla parametric; EnvelopeToy.tla symbolic-bytes instance model-checked; EnvelopeTerm.tla term instance) with TLC; term cases replayed into internal/mtproto/messages",
            "TLC checks on a symbolic-bytes instance (free hash / ideal cipher) that every sealed packet opens to exactly its fields under its own direction's key schedule and has the stated length; the same layout definition, instantiated as terms, is evaluated by TLC per case and interpreted by the harness with real SHA-1/AES: the real Serialize output is opened the way a conformant server does (key id, msg_key over header+body, key/IV at offset 0, fewer than 16 padding bytes, ack bit), and packets sealed from the specification for the server-to-client direction (offset 8) must come out of DeserializeEncrypted as exactly their fields - every body-length residue, both ack settings, extreme field values.",
            "SHA-1/AES trusted; padding content free; harness IGE primitive cross-checked against the unfolded definition in the C05 run",
            "5 C03"),
    "C04": ("model_checking",
            "TLA+ receive machine (EnvelopeToy.tla) model-checked with TLC over mutation classes; mutation cases (EnvelopeTerm.tla) replayed into DeserializeEncrypted with the specification's Accept evaluated on the mutated bytes",
            "TLC checks that the receive machine, shaped like DeserializeEncrypted, refuses every mutated packet (bit flips per region, truncations, re-keying, garbage, wrong direction, wrong parity, inconsistent declared lengths) unless it is a consistent re-sealing by the key holder, and never reaches a panic state (LengthGuardInverted alone does). The harness builds real packets from the specification's layout, applies each mutation class at seeded positions (every bit in thorough) and every declared length in the property's set, evaluates the five-check Accept on the actual bytes and requires DeserializeEncrypted to agree: error for refused, identical fields for accepted, never a panic.",
            "SHA-1/AES trusted; verdict for a flipped bit is computed (msg_key recomputation), not assumed; client-level behaviour on such packets belongs to the session-engine harness",
            "5 C04"),
    "C09": ("model_checking",
            "TLA+ spec (Client.tla) model-checked with TLC; TLC-simulated schedules replayed with real goroutines held at hook gates against the reference server; recorded traces validated by TLC (ClientTrace.tla)",
            "TLC checks Client.tla (send path, response table, receive loop, conformant server, rotations; 2 callers exhaustively incl. liveness, 3 callers in thorough) for OwnResult / no stall; behaviours of the same module (caller start, release at the send gate, answers in any order and grouping) are replayed: callers are real goroutines parked at verif gates, the independent reference server answers object / Bool / Vector<int> / Vector<object> / rpc_error results plain, in containers and gzip-packed; plus seeded 8-goroutine runs. Every Call/Return and every frame the server saw is judged by TLC against the observable-level specification: the value returned must be the answer whose req_msg_id names a frame of the caller's own request, once, typed.",
            "the reference server (harness/refsrv, independent TL/IGE/envelope/handshake) plays the specification's server; hook gates (tag verif) only steer schedules, verdicts come from what the server and the callers observed; a stall needs a recorded time-out with goroutine dump",
            "5 C09"),
    "C10": ("model_checking",
            "TLA+ spec (Client.tla: WireIdsIncrease, SeqNoRules) model-checked with TLC; the numbering alone (MsgIds.tla) over unbounded integers: inductive invariant discharged by Apalache, window checked by TLC, four deviations must break it; TLC-simulated interleavings replayed through hook gates; server's arrival-order log validated by TLC (ClientTrace.tla)",
            "TLC checks that with id generation inside the send lock (and the +4 bump on a standing clock) wire ids strictly increase in write order and seq_no parity/monotonicity hold for every interleaving of callers and the loop's own acknowledgements, and that GenIdOutsideLock breaks it. The same interleavings (callers held right after taking their id, released in any order, acknowledgements racing with senders) are replayed on the real client; the reference server's log of (msg_id, seq_no, kind) in arrival order and the set of acknowledged content-related messages (plain and inside containers) are judged by TLC.",
            "the reference server (harness/refsrv, independent TL/IGE/envelope/handshake) plays the specification's server; hook gates (tag verif) only steer schedules, verdicts come from what the server and the callers observed; a stall needs a recorded time-out with goroutine dump; arrival order at the server = write order (one TCP connection); whether an ack advances seq_no is left open",
            "5 C10"),
    "C11": ("model_checking",
            "TLA+ spec (Client.tla with salt rotation, liveness under weak fairness) model-checked with TLC; rotation histories from TLC simulation and named regressions replayed against a salt-enforcing reference server; traces validated by TLC (ClientTrace.tla)",
            "TLC checks AcceptedNeverResent, SaltPersisted, absence of loop stalls and <>AllDone / []<>reading for 2 callers with up to 2 rotations at any moment in fresh-key and resumed sessions; NotifyAllOnBadSalt and NotifyAll+StaleEntry each yield the stall the property text describes. Histories with rotations (TLC-simulated, the named regressions, seeded random with 3 rotations, rejection processed while the sender is still in the send section, announced salt) run on the real client against a server that enforces salts; TLC judges: every rejected request re-sent, no accepted request sent twice, every caller gets its own answer, the adopted salt reaches the store, nothing times out.",
            "the reference server (harness/refsrv, independent TL/IGE/envelope/handshake) plays the specification's server; hook gates (tag verif) only steer schedules, verdicts come from what the server and the callers observed; a stall needs a recorded time-out with goroutine dump",
            "5 C11"),
    "C16": ("model_checking",
            "TLA+ spec (Client.tla loop: NoStall*, LoopKeepsReading) model-checked with TLC; server-message histories over a 22-member alphabet replayed in child processes against the reference server; traces validated by TLC (ClientTrace.tla)",
            "TLC checks that the receive loop never blocks on a hand-over nobody takes and always returns to reading. Histories over a 22-member server alphabet (every MTProto service constructor, API objects as updates, unknown / truncated / empty bodies, empty and nested containers, unsolicited and repeated results, bad_msg_notification, transport error code, garbage and short frames) - singly with and without warning channel + handler, in seeded pairs, and with orderly close at message boundaries - are played to the real client in a child process; TLC judges: process alive, probes complete, updates surfaced, reconnect without a new key exchange.",
            "the reference server (harness/refsrv, independent TL/IGE/envelope/handshake) plays the specification's server; hook gates (tag verif) only steer schedules, verdicts come from what the server and the callers observed; a stall needs a recorded time-out with goroutine dump; the warning channel is drained by the harness",
            "5 C16"),
    "C06": ("model_checking",
            "TLA+ spec (Handshake.tla, symbolic fixed-width values) model-checked with TLC; every leading-zero corner forced in real key exchanges against the reference server; traces validated by TLC (HandshakeTrace.tla)",
            "TLC checks over every assignment of 0/1/2 leading zero bytes to {nonce, server_nonce, new_nonce, new_nonce_hash1, RSA block, g^ab} that with fixed-width conversions both sides derive the same key and salt, the exchange completes and the session is stored; each as-coded Strip*/RsaLeftAligned deviation must break it. The corners are then forced in real exchanges in child processes (server draws through the reference server's hooks, client nonces and DH exponent through verif hooks, hash/RSA/g^x corners by search), together with pq shapes up to 2^64 and unforced honest exchanges; TLC judges: CreateConnection nil, same 256-byte key (key id), same salt, session stored, first encrypted request opens under the server's key with the right salt.",
            "reference server independent of /repo; 64-bit DH exponents in forced corners (Telegram's 2048-bit group); RSA-2048 key generated per run",
            "5 C06"),
    "C07": ("model_checking",
            "TLA+ spec (Handshake.tla lies) model-checked with TLC; the reference server lies exactly once per real key exchange; traces validated by TLC (HandshakeTrace.tla)",
            "TLC checks for every (step, field) lie and every leading-zero assignment that the exchange ends aborted with nothing stored and no encrypted request, never in a panic state; omitting any single check (sampled) or panicking on a bad answer hash must break it. In real exchanges the reference server corrupts one reply field of resPQ / server_DH_params_ok / server_DH_inner_data / dh_gen_ok by bit flip (seeded positions; every bit in thorough), fresh value, the other nonce or zero, or answers with the failure / retry constructors; TLC judges: CreateConnection returns an error (no panic), store empty, no encrypted frame at the server.",
            "a panic inside CreateConnection is recovered by the harness and counted as a violation (not an abort with an error)",
            "5 C07"),
    "C01": ("model_checking",
            "TLA+ wire-format definition (TLCodec.tla) model-checked on a synthetic universe (TLCodecMC.tla); schema-directed value families generated by TLC (TLCodecGen.tla) round-tripped through tl.Marshal / Decode / DecodeUnknownObject",
            "TLC checks on every layout of up to 2 (3 in thorough) fields over 7 kinds with shared conditional bits that the specified encoding is word-aligned, reads back through a layout-only decoder (RoundTrip) and that a present group which drops a member cannot be read back (GroupRule). For every definition of the shipped schemas TLC then builds the pattern family of values (all groups absent/present, shared-group zero members, each bit alone/removed, present-empty vectors, string lengths across both header forms and every residue mod 4, scalar extremes, enum members, nested objects, 128/256-bit integers with leading zeros); the Go values built by position must survive Marshal twice (identical bytes), Decode into the named type and DecodeUnknownObject.",
            "reflect.DeepEqual decides equality; hand-written codecs (gzip_packed, msg_container, msg_copy, rpc_result) are exercised in the decode direction by C09/C15/C16",
            "5 C01"),
    "C02": ("model_checking",
            "TLA+ wire-format definition (TLCodec.tla) applied by TLC to layouts read from the .tl text (SchemaDefs.tla); byte images compared with tl.Marshal and decoded by tl.DecodeUnknownObject",
            "The layout of every constructor and method comes from an independent reading of the schema text (own lexer + TLA+ interpretation of parameter types, flag bits, flags-word position); TLCodec!EncObj, evaluated by TLC, yields the byte image of each pattern value with all format constants (little-endian words, 1-/4-byte string headers and the 254 threshold, alignment, vector id and count, Bool ids, fixed-width big-endian 128/256-bit integers) stated in TLA+. tl.Marshal of the Go value must equal the image byte for byte, the image must decode to the value, and a 2^24-byte string must be refused.",
            "string payload bytes are a fixed function of (length, tag) on both sides; constructor ids are taken from the schema text (their CRC is checked by C13)",
            "5 C02"),
    "C13": ("model_checking",
            "TLA+ relation Faithful (SchemaXlate.tla, incl. CRC-32 in TLA+) evaluated by TLC on the lexed schema and the reflected registry of the built binary; TLC-generated method contracts replayed end-to-end against the reference server",
            "TLC evaluates for each of the 1241 definitions: written id = CRC-32 of the canonical line, exactly one registered type, enum vs struct, field count, kinds, names and order, vector markers, conditional bits, flags-word position; nothing registered outside the schemas; generic request wrappers present, structurally equal and byte-exact. For all 343 generated client methods TLC emits the request image of a call whose arguments name their position and an answer of the declared result kind; each method is called by reflection against the reference server: the request the server decrypts must equal the image, the value returned must be the answer sent.",
            "the specification is evaluated as a relation over extracted data (no state graph); definitions kept as comment lines count as defined, their CRC is not checked; MTProto service objects may abbreviate field names",
            "5 C13"),
    "C15": ("model_checking",
            "TLA+ decoder machine (TLDecoder.tla) model-checked with TLC over all short word streams; structure-aware mutants with the model's word classes decoded by the real decoder in a memory-limited child",
            "TLC checks for every word stream of up to 4 (5 in thorough) words over 15 word classes, with and without vector hints, that the expectation-stack decoder ends in value or error (never panic), allocates no more than the remaining input can fill and terminates within a linear number of steps; the three as-coded deviations each break it. The same word classes drive mutation of valid images of the registered constructors (truncations, every leading word replaced by each class), vector results with and without hints, containers with negative/huge counts and sizes, broken gzip bodies; the real decoder runs under recover, a watchdog, allocation accounting and a 12 GiB address-space limit.",
            "value-versus-error on corrupted input is not specified; gzip expansion exempt from the allocation bound; a child killed by the memory limit is attributed to the mutant announced last",
            "5 C15"),
    "C14": ("model_checking",
            "TLA+ spec (SchemaGen.tla: schema-building machine + translation Xlate) simulated with TLC; each generated schema is parsed by tlparser and generated/compiled by tlgen built from the tree, go/ast of the output compared with Xlate",
            "TLC random behaviours of the schema-building machine (invariant SubsetOK keeps it inside the documented subset) produce schemas together with Xlate(schema), the model's statement of what must be declared (class, id, fields in order with Go kind, slice marker, tl tag, FlagIndex). Every schema is rendered as .tl text, must be parsed by tlparser.ParseSchema into exactly its definitions, generated twice and once over another schema's output (byte-identical), compiled with a stub Client, and its declarations must equal Xlate. Flag bits rotate over 0..31, feature coverage (enums, name clashes, shared bits, true flags, every primitive as scalar and vector, result kinds, >5 parameters) is enforced, and every schema under schemes/ must be accepted, reproducible and compile. Sampled (simulation), not exhaustive: the space of schemas is unbounded.",
            "generated identifiers are matched by id, not by name; schema text rendering (incl. comments) is done by the harness; generated code is compiled and inspected, not run. schemes/e2e_*.tl and schemes/mtproto.tl are recorded as known findings",
            "5 C14"),
    "C18": ("model_checking",
            "TLA+ spec (SRP.tla) model-checked with TLC over a toy group; SRPGen.tla generates term cases that a Go term interpreter evaluates for the 2048-bit group and compares with telegram.GetInputCheckPassword",
            "TLC checks exhaustively in a 23-element group, with every a, b, password value, hash values and leading-zero classes of A, B and S, that the server accepts the right password, rejects another, and that invalid B values and the empty password are refused - and that dropping any fixed-width padding or the range check breaks it (sensitivity configs). The same definitions as terms (PH1/PH2, v, k, B, u, S, M1) are interpreted over Telegram's group and judge the answers of the real code for password classes x salt lengths x forced leading zeros (server secret by search, client secret through the guarded hook).",
            "SHA-256, PBKDF2-HMAC-SHA512 and math/big trusted; forced corners use 64-bit secrets",
            "5 C18"),
    "C19": ("model_checking",
            "TLA+ spec (Provenance.tla) evaluated by TLC on the RTA call graph extracted from the working tree; dynamic cross-check of its predictions on the real key exchange and SRP code",
            "The specification states provenance as reachability over a labelled call graph: no math/rand or clock source below a secret-producing path of makeAuthKey / GetInputCheckPassword / NewMTProto, every secret producer reaches crypto/rand, reseeding harmless. TLC evaluates it on the graph extracted from the tree (callgraph -algo=rta with the verif tag), and must flag the recorded graph of the original tree. The predictions are cross-checked dynamically: secrets do not repeat after identical math/rand seeding, between exchanges, or between a failed attempt and its retry.",
            "function-granular reachability over an extracted model, not a data-flow proof; a PRNG behind a function value in a third-party library is invisible",
            "5 C19"),
}

NOT_YET = {}

def main():
    props = [json.loads(l) for l in open(os.path.join(VERIF, "properties.jsonl"))]
    checks = []
    na = []
    for p in props:
        pid = p["id"]
        if pid in CLAIMED:
            cat, tech, text, note, ref = CLAIMED[pid]
            checks.append({
                "property_id": pid,
                "quick_cmd": "./check %s --tier quick" % pid,
                "thorough_cmd": "./check %s --tier thorough" % pid,
                "evidence_file": "/verif/evidence/%s.json" % pid,
                "replay_cmd_template": "./check %s --replay {path}" % pid,
                "engine": "tlc+go-harness",
                "level_claimed": {"category": cat, "text": text, "design_ref": "DESIGN.md section " + ref},
                "level_note": note,
                "technique": tech,
            })
        else:
            na.append({"property_id": pid, "reason": NOT_YET.get(pid, "check not built yet in this round (planned: TLA+ specification + TLC + conformance harness, see DESIGN.md section 5); not claimed until it runs clean on the unchanged tree")})
    hooks_commits = []
    hc = os.path.join(VERIF, "hook_commits.txt")
    if os.path.exists(hc):
        hooks_commits = [l.split()[0] for l in open(hc) if l.strip()]
    m = {
        "version": 1,
        "setup_cmd": "./setup.sh",
        "hooks": {
            "guard": "verif",
            "enable": "go build -tags verif (the harness module /verif/harness replaces github.com/xelaj/mtproto with /repo)",
            "baseline_off_cmd": "/verif/baseline_off.sh",
            "source_commits": hooks_commits,
            "add_only": True,
        },
        "engines": [
            {"name": "tlc+go-harness", "path": "/verif/check",
             "serves_properties": sorted(CLAIMED),
             "kind_free_text": "TLA+ specifications under /verif/spec model-checked by TLC; cases, behaviours and schedules generated by TLC are replayed into the real Go code by /verif/harness (built from /repo's working tree, -tags verif) and traces recorded from the real code are validated by TLC against the specification"},
        ],
        "checks": checks,
        "not_applicable": na,
        "notes": "Exit 2 from a check means the check could not give a verdict (build failure, TLC error, timeout); it is never a violation. known_findings.json lists genuine defects (known / fixed).",
    }
    with open(os.path.join(VERIF, "MANIFEST.json"), "w") as f:
        json.dump(m, f, indent=1)
    print("MANIFEST: %d checks, %d not_applicable" % (len(checks), len(na)))

if __name__ == "__main__":
    main()
