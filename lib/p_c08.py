"""C08 - transport framing under arbitrary TCP segmentation (spec/Transport.tla, spec/TransportObs.tla)."""
import json
import os

import common as C


def run(ctx):
    thorough = ctx.tier == "thorough"
    mc = C.run_tlc(ctx, "Transport", "Transport3.cfg" if thorough else "Transport.cfg", workers=C.NCPU, timeout=1800)
    C.run_tlc(ctx, "Transport", "TransportDevHeaderBeforeRefusal.cfg", workers=4, expect_violation=True, timeout=300, tag="sensitivity:HeaderBeforeRefusal")
    C.run_tlc(ctx, "Transport", "TransportDevShort.cfg", workers=4, expect_violation=True, timeout=300,
              tag="sensitivity:ShortRead")
    runs = os.path.join(ctx.wd, "transport_runs.ndjson")
    args = ["transport", "-seed", str(ctx.seed), "-out", runs, "-random", "40" if thorough else "6"]
    if thorough:
        args += ["-big", "-pause", "1500"]
    summary = C.run_harness_phase(ctx, args, "process-died:transport", "reading framed messages from a segmented stream", timeout=3000)
    if summary is None:
        raise C.Broken("the transport harness died inside the library (reported above); no runs to judge")
    nruns = summary["runs"]
    out = os.path.join(ctx.wd, "transport_verdicts.ndjson")
    tv = C.run_tlc(ctx, "TransportObs", "TransportObs.cfg", workers=1, env={"VERIF_RUNS": runs, "VERIF_OUT": out},
                   timeout=1800, tag="trace-validation")
    if not os.path.exists(out):
        raise C.Broken("TransportObs wrote no verdicts:\n" + tv.out[-2000:])
    bad = C.read_ndjson(out)
    byid = {}
    allruns = C.read_ndjson(runs)
    for x in allruns:
        byid[x["id"]] = x
    for b in bad:
        x = byid[b["id"]]
        sig = "%s:%s:%s" % (b["kind"], x["level"], x["mode"])
        if x["op"] == "write":
            detail = "WriteMsg of %d bytes in %s mode put announcement %s header %s on the wire" % (x["len"], x["mode"], x["ann"], x["hdr"])
        elif x["op"] == "writeseq":
            detail = "WriteMsg calls of %s bytes in %s mode were accepted %s and left %d bytes on the wire (first 24: %s): not the announcement followed by the frames of the accepted messages" % (
                x["sent"], x["mode"], x["oks"], len(x["wire"]), x["wire"][:24])
        else:
            detail = "%s-level read, %s, sent lengths %s (codes %s) cut at %s closed at %s: surfaced %s" % (
                x["level"], x["mode"], x["sent"], x["codes"], x["cuts"], x["close"], x["got"])
        ctx.disagreement(sig, detail, x)
    distinct = len({(x["op"], x["level"], x["mode"], tuple(x["sent"]), tuple(x["cuts"]), x["close"], x["len"]) for x in allruns})
    C.write_evidence(ctx, "model_checking", {
        "states": mc.distinct, "transitions": mc.generated,
        "traces_validated_against_impl": nruns,
        "evaluations": nruns, "distinct_nontrivial": distinct,
        "rule": "Transport.tla explores every split of the stream into segments for up to %d messages per mode; real runs over "
                "loopback TCP (mode.Detect/ReadMsg and transport.ReadMsg fed by a segmenting writer; mode.New/WriteMsg captured "
                "byte-exact): lengths around the 127-word switch and up to 2^16 (2^20, 2^24-4 in thorough), cuts at every "
                "announcement/header byte, all subsets for a short stream, seeded random subsets, close at a boundary and inside a "
                "frame, error-code frames; each run judged by TLC (TransportObs); distinct = distinct (scenario, cuts)" % (3 if thorough else 2),
        "samples": [byid[k] for k in sorted(byid)[:2]] + [x for x in allruns if x["op"] == "write"][:2],
        "exhaustive": False, "verdict_kinds": sorted({b["kind"] for b in bad}),
    }, ["loopback TCP delivers segments as written when the writer pauses between them (TCP_NODELAY); correctness of the verdict "
        "does not depend on it, only the power to expose short reads does",
        "frames carry random bytes; equal bodies are interchangeable"])


def replay(ctx, path):
    rec = json.load(open(path))
    ctx.seed = rec["seed"]
    ctx.tier = rec.get("tier", "quick")
    print("C08 replay: re-running the scenario set of seed %d (run %s)" % (ctx.seed, rec["case"].get("id")))
    run(ctx)
