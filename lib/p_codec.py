"""Shared machinery of the codec family (C01 C02 C13 C15): schema lexing, registry export,
TLC case generation (spec/TLCodecGen.tla)."""
import json
import os

import common as C

SCHEMAS = ["schemes/api_121.tl", "schemes/mtproto.tl"]


def extract(ctx):
    schema = os.path.join(ctx.wd, "schema.json")
    registry = os.path.join(ctx.wd, "registry.json")
    C.run_harness(ctx, ["schema", "-out", schema] + [os.path.join(C.REPO, s) for s in SCHEMAS])
    C.run_harness(ctx, ["registry", "-out", registry])
    return schema, registry


def generate(ctx, schema, stride):
    out = os.path.join(ctx.wd, "codec_cases.ndjson")
    cfg = os.path.join(C.spec_copy(ctx), "TLCodecGenRun.cfg")
    with open(cfg, "w") as f:
        f.write("CONSTANTS Stride = %d\n Seed = %d\n StrLens = {0, 1, 2, 3, 4, 5, 252, 253, 254, 255, 256, 257}\n"
                " BigLens = {65535, 65536, 16777215, 16777216}\n" % (stride, ctx.seed))
    r = C.run_tlc(ctx, "TLCodecGen", "TLCodecGenRun.cfg", workers=1, env={"VERIF_SCHEMA": schema, "VERIF_OUT": out, "VERIF_METHODS": ""},
                  timeout=3000, tag="generate-cases")
    return out, sum(1 for _ in open(out))


def model(ctx, thorough):
    return C.run_tlc(ctx, "TLCodecMC", "TLCodecMC3.cfg" if thorough else "TLCodecMC.cfg", workers=C.NCPU, timeout=3000)


def run_cases(ctx, prefix):
    thorough = ctx.tier == "thorough"
    mc = model(ctx, thorough)
    schema, registry = extract(ctx)
    cases, ncases = generate(ctx, schema, 1 if thorough else 6)
    r = C.run_harness(ctx, ["codec", "-cases", cases], timeout=3000)
    rep = json.loads(r.stdout)
    mine = {k: v for k, v in rep["sig_counts"].items() if k.startswith(prefix + ":")}
    for d in rep["disagreements"]:
        if d["sig"].startswith(prefix + ":"):
            ctx.disagreement(d["sig"], d["detail"], d["case"])
    # the same under concurrency: first use of each type by several goroutines at the same instant, in fresh processes
    crep = concurrent(ctx, cases, prefix, thorough)
    for k, v in crep.items():
        mine[k] = mine.get(k, 0) + v
    return mc, rep, ncases, mine


def concurrent(ctx, cases, prefix, thorough, kinds=("marshal", "decode", "process-died")):
    rep = C.run_harness_phase(ctx, ["codecconc", "-cases", cases, "-children", "40" if thorough else "10", "-per", "60"],
                              prefix + ":process-died:first-use-under-concurrency", "codec under concurrent first use", timeout=1800)
    out = {}
    for d in (rep or {}).get("disagreements", []):
        rest = d["sig"].split(":", 1)[1]
        if any(k in rest for k in kinds):
            sig = prefix + ":" + rest
            out[sig] = out.get(sig, 0) + 1
            ctx.disagreement(sig, d["detail"], d["case"])
    return out
