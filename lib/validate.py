#!/usr/bin/env python3-vt
import json, sys, glob, jsonschema
m = json.load(open('/verif/MANIFEST.json'))
jsonschema.validate(m, json.load(open('/root/.vp/MANIFEST.schema.json')))
es = json.load(open('/root/.vp/EVIDENCE.schema.json'))
for c in m['checks']:
    p = c['evidence_file']
    try:
        jsonschema.validate(json.load(open(p)), es)
        print('ok', p)
    except Exception as e:
        print('BAD', p, str(e)[:300])
print('manifest valid')
