"""Shared machinery for /verif/check: scratch dirs, Go harness build, TLC runner,
evidence writer, known-findings matcher, verdict bookkeeping.

Exit codes of a check: 0 = property held on everything explored (possibly with
KNOWN-FINDING lines), 1 = VIOLATION observed on real code, 2 = the check itself is broken
(spec error, harness trouble, timeout) - never reported as a violation.
"""
import json
import os
import re
import shutil
import subprocess
import sys
import time
import uuid

VERIF = os.path.dirname(os.path.dirname(os.path.abspath(__file__)))
REPO = os.environ.get("VERIF_REPO", "/repo")
SPEC = os.path.join(VERIF, "spec")
HARNESS = os.path.join(VERIF, "harness")
WORK = os.path.join(VERIF, ".work")
NCPU = os.cpu_count() or 4

GOENV = {
    "GOFLAGS": "-mod=mod",
    "GOPROXY": "off",
    "GOSUMDB": "off",
    "GOTOOLCHAIN": "local",
}


class Broken(Exception):
    """The check cannot give a verdict (exit 2)."""


class Ctx:
    def __init__(self, pid, tier, seed):
        self.pid = pid
        self.tier = tier
        self.seed = seed
        self.t0 = time.time()
        self.wd = os.path.join(WORK, "%s-%d-%s" % (pid, os.getpid(), uuid.uuid4().hex[:6]))
        os.makedirs(self.wd, exist_ok=True)
        self.violations = []      # list of dict(detail=..., replay=path)
        self.known_hits = []      # list of (entry, what)
        self.notes = []
        self.harness_bin = None
        self.known = load_known(pid)
        self.tlc_runs = []        # summaries of every TLC run of this check
        self._nrep = 0

    # ---------------------------------------------------------------- verdicts
    def disagreement(self, sig, detail, case):
        """Real code disagreed with the specification.  `sig` is a stable signature string
        (deviation name + input class) matched against known_findings.json; anything not
        listed there as status=known is a violation."""
        for e in self.known:
            if e.get("status") == "known" and re.fullmatch(e["signature"], sig):
                if not any(h[0] is e for h in self.known_hits):
                    self.known_hits.append((e, detail))
                return False
        self._nrep += 1
        path = os.path.join(VERIF, "replays", "%s-seed%d-%d.json" % (self.pid, self.seed, self._nrep))
        if self._nrep <= 20:
            os.makedirs(os.path.dirname(path), exist_ok=True)
            with open(path, "w") as f:
                json.dump({"property": self.pid, "seed": self.seed, "tier": self.tier,
                           "signature": sig, "detail": detail, "case": case}, f, indent=1, default=str)
            print("VIOLATION property=%s replay=%s" % (self.pid, path))
            print("  signature=%s" % sig)
            print("  " + str(detail)[:600])
        self.violations.append({"sig": sig, "detail": str(detail)[:300], "replay": path})
        return True

    def cleanup(self):
        shutil.rmtree(self.wd, ignore_errors=True)


# ------------------------------------------------------------------ known findings
def load_known(pid):
    p = os.path.join(VERIF, "known_findings.json")
    if not os.path.exists(p):
        return []
    with open(p) as f:
        data = json.load(f)
    return [e for e in data.get("findings", []) if e.get("property") == pid]


# ------------------------------------------------------------------ go harness
def go_env():
    env = dict(os.environ)
    env.update(GOENV)
    return env


def build_harness(ctx, tags="verif"):
    """Build the harness against /repo's current working tree (hooks on)."""
    if ctx.harness_bin:
        return ctx.harness_bin
    out = os.path.join(ctx.wd, "verif-harness")
    # go.sum must cover /repo's deps; refresh from the tree in case it changed
    try:
        sums = set()
        for p in ("go.sum", "telegram/deeplinks/go.sum", "internal/cmd/tlgen/go.sum"):
            fp = os.path.join(REPO, p)
            if os.path.exists(fp):
                sums.update(open(fp).read().splitlines())
        hs = os.path.join(HARNESS, "go.sum")
        have = set(open(hs).read().splitlines()) if os.path.exists(hs) else set()
        if not sums <= have:
            with open(hs, "w") as f:
                f.write("\n".join(sorted(have | sums)) + "\n")
    except OSError:
        pass
    cmd = ["go", "build", "-tags", tags, "-o", out, "./cmd/verif"]
    r = subprocess.run(cmd, cwd=HARNESS, env=go_env(), capture_output=True, text=True, timeout=900)
    if r.returncode != 0:
        # a tree that does not compile is not a property violation; the check is unusable
        raise Broken("harness build failed:\n" + r.stdout[-3000:] + r.stderr[-3000:])
    ctx.harness_bin = out
    return out


def run_harness(ctx, args, stdin=None, timeout=600, env=None, check=True):
    b = build_harness(ctx)
    e = go_env()
    if env:
        e.update(env)
    r = subprocess.run([b] + list(args), input=stdin, capture_output=True, text=True,
                       timeout=timeout, env=e, cwd=ctx.wd)
    if check and r.returncode != 0:
        raise Broken("harness %s failed rc=%d:\n%s\n%s" % (args, r.returncode, r.stdout[-2000:], r.stderr[-4000:]))
    return r


def run_harness_phase(ctx, args, sig, what, timeout=600, env=None):
    """A harness phase whose process the library may kill (unrecovered panic in a goroutine, fatal runtime error such as
    concurrent map writes): a death inside library frames is a violation with the given signature, any other failure is a
    broken check.  Returns the parsed JSON report, or None when the process died in the library."""
    r = run_harness(ctx, args, timeout=timeout, env=env, check=False)
    if r.returncode == 0:
        return json.loads(r.stdout.strip().splitlines()[-1])
    err = r.stderr
    died_in_library = ("fatal error:" in err or "panic:" in err) and "github.com/xelaj/mtproto" in err.replace("github.com/xelaj/mtproto/verifharness", "")
    if died_in_library:
        first = next((l for l in err.splitlines() if l.startswith("fatal error:") or l.startswith("panic:")), err[:200])
        ctx.disagreement(sig, "%s: the process died: %s" % (what, first), {"phase": what, "stderr": err[:3000]})
        return None
    raise Broken("harness %s failed rc=%d:\n%s\n%s" % (args, r.returncode, r.stdout[-2000:], err[-4000:]))


# ------------------------------------------------------------------ TLC
class TlcResult:
    def __init__(self):
        self.rc = None
        self.out = ""
        self.generated = 0
        self.distinct = 0
        self.depth = 0
        self.ok = False
        self.invariant_violated = None
        self.property_violated = False
        self.deadlock = False
        self.error = None
        self.wall = 0.0
        self.cmd = ""
        self.coverage_zero = []


_spec_copies = {}


def spec_copy(ctx):
    """TLC litters its working directory: run it in a scratch copy of spec/."""
    d = os.path.join(ctx.wd, "spec")
    if not os.path.isdir(d):
        shutil.copytree(SPEC, d)
    return d


def run_tlc(ctx, module, cfg=None, workers=None, env=None, timeout=600, extra=(), simulate=None,
            deadlock=True, java_opts=None, expect_violation=False, coverage=False, tag=None):
    d = spec_copy(ctx)
    res = TlcResult()
    meta = os.path.join(ctx.wd, "meta-%s" % uuid.uuid4().hex[:8])
    cmd = ["tlc", "-metadir", meta, "-workers", str(workers or "auto"),
           "-config", cfg or (module + ".cfg")]
    if not deadlock:
        cmd.append("-deadlock")
    if simulate:
        cmd += ["-simulate", simulate]
    if coverage:
        cmd += ["-coverage", "1"]
    cmd += list(extra)
    cmd.append(module + ".tla")
    e = dict(os.environ)
    jtmp = os.path.join(ctx.wd, "jtmp")       # TLC leaves an empty tlc-* directory per run in java.io.tmpdir
    os.makedirs(jtmp, exist_ok=True)
    jopts = "-Xss64m -Djava.io.tmpdir=" + jtmp
    if java_opts:
        jopts += " " + java_opts
    e["JAVA_TOOL_OPTIONS"] = (e.get("JAVA_TOOL_OPTIONS", "") + " " + jopts).strip()
    if env:
        e.update({k: str(v) for k, v in env.items()})
    t0 = time.time()
    try:
        r = subprocess.run(["timeout", str(int(timeout))] + cmd, cwd=d, env=e, capture_output=True, text=True)
    finally:
        shutil.rmtree(meta, ignore_errors=True)
    res.wall = time.time() - t0
    res.rc = r.returncode
    res.out = r.stdout + r.stderr
    res.cmd = " ".join(cmd)
    if r.returncode == 124:
        raise Broken("TLC timed out after %ss: %s" % (timeout, res.cmd))
    m = re.findall(r"(\d+) states generated, (\d+) distinct states found", res.out)
    if m:
        res.generated, res.distinct = int(m[-1][0]), int(m[-1][1])
    m = re.search(r"depth of the complete state graph search is (\d+)", res.out)
    if m:
        res.depth = int(m.group(1))
    m = re.search(r"Invariant (\S+) is violated", res.out)
    if m:
        res.invariant_violated = m.group(1)
    if "Temporal properties were violated" in res.out or re.search(r"(Action|Temporal) property \S+ (is|was) violated", res.out):
        res.property_violated = True
    if "Deadlock reached" in res.out:
        res.deadlock = True
    res.ok = ("No error has been found" in res.out or "Finished computing initial states" in res.out and r.returncode == 0) \
        and r.returncode == 0
    if simulate and r.returncode == 0:
        res.ok = True
    if not res.ok and not (res.invariant_violated or res.property_violated or res.deadlock):
        m = re.search(r"Error: (.*(?:\n.*){0,12})", res.out)
        res.error = m.group(1) if m else ("rc=%d" % r.returncode)
    if coverage:
        res.coverage_zero = re.findall(r"<(\w+) line \d+, col \d+ to line \d+, col \d+ of module \w+>: 0:0", res.out)
    ctx.tlc_runs.append({"tag": tag or (cfg or module), "cmd": res.cmd, "generated": res.generated,
                         "distinct": res.distinct, "depth": res.depth, "wall_s": round(res.wall, 2),
                         "ok": res.ok, "invariant_violated": res.invariant_violated,
                         "property_violated": res.property_violated, "deadlock": res.deadlock})
    violated = bool(res.invariant_violated or res.property_violated or res.deadlock)
    if expect_violation:
        if not violated:
            raise Broken("sensitivity run %s expected a counterexample but TLC found none:\n%s"
                         % (res.cmd, res.out[-1500:]))
    else:
        if violated:
            raise Broken("specification error (TLC counterexample with Dev = {}): %s\n%s"
                         % (res.cmd, res.out[-4000:]))
        if not res.ok:
            i = res.out.find("Error:")
            raise Broken("TLC failed: %s\n%s" % (res.cmd, res.out[i:i + 3000] if i >= 0 else res.out[-3000:]))
    return res


# ------------------------------------------------------------------ Apalache (unbounded inductive steps)
def run_apalache(ctx, module, steps, cinit="ConstInit", timeout=300):
    """steps: [(init, inv, length)] - the three obligations of an inductive invariant. A counterexample is a defect of
    the specification (Broken); a tool failure (not installed, out of memory, timeout) is recorded in the evidence as
    'unavailable' and proves nothing - TLC's bounded run of the same module still stands."""
    d = spec_copy(ctx)
    out = []
    for init, inv, length in steps:
        od = os.path.join(ctx.wd, "apalache-%s" % uuid.uuid4().hex[:8])
        cmd = ["apalache-mc", "check", "--cinit=" + cinit, "--init=" + init, "--inv=" + inv, "--length=%d" % length,
               "--out-dir=" + od, module + ".tla"]
        t0 = time.time()
        try:
            r = subprocess.run(["timeout", str(int(timeout))] + cmd, cwd=d, capture_output=True, text=True)
            txt = r.stdout + r.stderr
        except OSError as e:
            r, txt = None, str(e)
        finally:
            shutil.rmtree(od, ignore_errors=True)
        rec = {"tag": "apalache:%s:%s=>%s:len%d" % (module, init, inv, length), "cmd": " ".join(cmd), "generated": 0, "distinct": 0,
               "depth": length, "wall_s": round(time.time() - t0, 2), "invariant_violated": None, "property_violated": False, "deadlock": False}
        if r is not None and "The outcome is: NoError" in txt and r.returncode == 0:
            rec["ok"] = True
        elif r is not None and ("The outcome is: Error" in txt or "violat" in txt.lower()) and r.returncode == 12:
            rec["ok"] = False
            ctx.tlc_runs.append(rec)
            raise Broken("specification error (Apalache counterexample): %s\n%s" % (rec["cmd"], txt[-3000:]))
        else:
            rec["ok"] = False
            rec["unavailable"] = txt[-400:]
        ctx.tlc_runs.append(rec)
        out.append(rec)
    return out


def read_ndjson(path):
    out = []
    with open(path) as f:
        for line in f:
            line = line.strip()
            if line:
                out.append(json.loads(line))
    return out


def write_ndjson(path, rows):
    with open(path, "w") as f:
        for r in rows:
            f.write(json.dumps(r, separators=(",", ":")) + "\n")


# ------------------------------------------------------------------ evidence
def write_evidence(ctx, level, coverage, assumptions):
    cov = dict(coverage)
    cov.setdefault("tlc_runs", ctx.tlc_runs)
    if "states" not in cov:
        cov["states"] = max(1, sum(r["distinct"] for r in ctx.tlc_runs))
    if "transitions" not in cov:
        cov["transitions"] = max(1, sum(r["generated"] for r in ctx.tlc_runs))
    cov.setdefault("traces_validated_against_impl", 0)
    cov["known_findings_hit"] = [{"signature": e["signature"], "what": e.get("what", "")} for e, _ in ctx.known_hits]
    ev = {
        "property_id": ctx.pid,
        "tier": ctx.tier,
        "seed": ctx.seed,
        "level": level,
        "coverage": cov,
        "assumptions": assumptions,
        "wall_s": round(time.time() - ctx.t0, 2),
        "violations": len(ctx.violations),
    }
    # runs against a deliberately changed tree (lib/run_seeded.py) keep their evidence apart
    evdir = os.environ.get("VERIF_EVIDENCE_DIR") or os.path.join(VERIF, "evidence")
    os.makedirs(evdir, exist_ok=True)
    p = os.path.join(evdir, ctx.pid + ".json")
    tmp = p + ".tmp%d" % os.getpid()
    with open(tmp, "w") as f:
        json.dump(ev, f, indent=1, default=str)
    os.replace(tmp, p)
    return p


def finish(ctx):
    for e, detail in ctx.known_hits:
        print("KNOWN-FINDING: property=%s %s" % (ctx.pid, e.get("what", e["signature"])))
    if ctx.violations:
        print("%s: %d violation(s)" % (ctx.pid, len(ctx.violations)))
        return 1
    print("%s: OK (tier=%s seed=%d, %.1fs)" % (ctx.pid, ctx.tier, ctx.seed, time.time() - ctx.t0))
    return 0
