"""C19 - secrets come from the OS random source (spec/Provenance.tla over the extracted call graph)."""
import collections
import json
import os
import subprocess

import common as C

ENTRIES = {"handshake": "(*github.com/xelaj/mtproto.MTProto).makeAuthKey",
           "srp": "github.com/xelaj/mtproto/telegram.GetInputCheckPassword",
           "new": "github.com/xelaj/mtproto.NewMTProto"}
PRODUCERS = [{"fn": "github.com/xelaj/mtproto/internal/encoding/tl.RandomInt128", "entry": "handshake"},
             {"fn": "github.com/xelaj/mtproto/internal/encoding/tl.RandomInt256", "entry": "handshake"},
             {"fn": "github.com/xelaj/mtproto/internal/math.MakeGAB", "entry": "handshake"},
             {"fn": "github.com/xelaj/mtproto/telegram/internal/srp.GetInputCheckPassword", "entry": "srp"}]
WHITELIST = ["github.com/xelaj/mtproto/internal/math.SplitPQ",
             "github.com/xelaj/mtproto/internal/aes_ige.EncryptMessageWithTempKeys"]


def klass(n):
    if "github.com/xelaj/" in n:
        return "fp"
    if n.startswith("crypto/rand.") or n.startswith("(*crypto/rand."):
        return "os"
    if n.startswith("math/rand.") or n.startswith("(*math/rand.") or n.startswith("math/rand/v2"):
        return "prng"
    if n == "(*math/big.Int).Rand":
        return "prng"      # draws from the *math/rand.Rand it is handed: a generator created elsewhere (package level) is used here
    if n == "time.Now":
        return "clock"
    return "lib"


def extract_graph(ctx):
    """RTA call graph of the working tree (tool: callgraph, x/tools), reduced to first-party callers."""
    r = subprocess.run(["callgraph", "-algo=rta", "-tags", "verif", "-format", "{{.Caller}}\t{{.Callee}}", "./cmd/cgmain"],
                       cwd=C.HARNESS, env=C.go_env(), capture_output=True, text=True, timeout=900)
    if r.returncode != 0 or not r.stdout:
        raise C.Broken("callgraph failed: " + r.stderr[-2000:])
    succ = collections.defaultdict(set)
    kl = {}
    nedges = 0
    for line in r.stdout.splitlines():
        if "\t" not in line:
            continue
        a, b = line.split("\t", 1)
        nedges += 1
        if klass(a) != "fp" or a.endswith(".init") or ".init#" in a or b.endswith(".init"):
            continue
        succ[a].add(b)
        kl[a] = "fp"
        kl[b] = klass(b)
    g = {"class": kl, "succ": {k: sorted(v) for k, v in succ.items()}, "entries": ENTRIES, "producers": PRODUCERS, "whitelist": WHITELIST}
    for e in ENTRIES.values():
        if e not in kl:
            raise C.Broken("entry point %s is not in the extracted call graph (renamed? extraction unsound)" % e)
    path = os.path.join(ctx.wd, "callgraph.json")
    json.dump(g, open(path, "w"))
    return path, len(kl), nedges


def run(ctx):
    # sensitivity: the graph of the original tree (math/rand under every secret) must produce findings
    out0 = os.path.join(ctx.wd, "prov_original.ndjson")
    C.run_tlc(ctx, "Provenance", "Provenance.cfg", workers=1, timeout=600, tag="sensitivity:original-tree-graph",
              env={"VERIF_GRAPH": os.path.join(C.spec_copy(ctx), "ProvenanceOriginalTree.json"), "VERIF_OUT": out0})
    if len(C.read_ndjson(out0)) < 5:
        raise C.Broken("Provenance.tla no longer flags the original tree's call graph")
    graph, nnodes, nedges = extract_graph(ctx)
    out = os.path.join(ctx.wd, "prov.ndjson")
    C.run_tlc(ctx, "Provenance", "Provenance.cfg", workers=1, timeout=600, tag="provenance", env={"VERIF_GRAPH": graph, "VERIF_OUT": out})
    findings = C.read_ndjson(out)
    for f in findings:
        ctx.disagreement("%s:%s" % (f["kind"], f["fn"]), "%s: %s" % (f["kind"], f["fn"]), f)
    key = os.path.join(ctx.wd, "rsa.key")
    C.run_harness(ctx, ["rsakey", key])
    r = C.run_harness(ctx, ["provenance", "-key", key], timeout=600)
    rep = json.loads(r.stdout)
    for d in rep["disagreements"]:
        ctx.disagreement(d["sig"], d["detail"], d["case"])
    C.write_evidence(ctx, "model_checking", {
        "states": nnodes, "transitions": nedges, "traces_validated_against_impl": rep["evaluations"],
        "evaluations": nnodes + rep["evaluations"], "distinct_nontrivial": nnodes,
        "rule": "Provenance.tla evaluated by TLC on the RTA call graph extracted from the working tree (states = nodes with a first-party caller, "
                "transitions = edges of the whole graph): restricted cones of makeAuthKey / GetInputCheckPassword / NewMTProto; no math/rand "
                "call under a secret path (SplitPQ and the wrapper's padding bytes are not entered), every secret producer reached and with a "
                "crypto/rand call in its cone, reseeding only if no secret depends on math/rand; the original tree's graph must yield "
                "findings. Dynamic cross-check of the model's predictions: secrets do not repeat after identical math/rand seeding, between "
                "key exchanges in one process, or between a failed attempt and its retry",
        "samples": rep["samples"][:4], "exhaustive": True, "findings": [f["kind"] + ":" + f["fn"] for f in findings],
    }, ["function-granular reachability over an extracted model, not a data-flow proof: a PRNG reached through a function value or a library "
        "outside go-dry is invisible", "RTA over-approximates dynamic calls (the cones are large), which can only add findings"])


def replay(ctx, path):
    run(ctx)
