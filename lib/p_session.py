"""Session-engine machinery shared by C09 C10 C11 C16 (and the end-to-end halves of C12, C17):
scenario files -> `verif session` children (real client + reference server) -> event logs ->
normalisation (ids to ranks, fixed fields) -> TLC evaluation against spec/ClientTrace.tla."""
import json
import os
import subprocess
import concurrent.futures

import common as C

V0 = {"kind": "", "v": 0, "code": 0, "msg": "", "param": ""}


def _val(v):
    out = dict(V0)
    if isinstance(v, dict):
        for k in ("kind", "msg", "param"):
            if k in v:
                out[k] = str(v[k])
        for k in ("v", "code"):
            if k in v:
                try:
                    out[k] = int(v[k])
                except (TypeError, ValueError):
                    out[k] = -1
    return out


def run_children(ctx, scenarios, batch=6, workers=None, settle=40, timeout=2500):
    """Runs every scenario in a child process (several per child); returns events per scenario id.
    A child that dies is restarted after the scenario that killed it."""
    C.build_harness(ctx)
    scp = os.path.join(ctx.wd, "scenarios-%d.ndjson" % len(os.listdir(ctx.wd)))
    C.write_ndjson(scp, scenarios)
    key = os.path.join(ctx.wd, "rsa.key")
    if not os.path.exists(key):
        C.run_harness(ctx, ["rsakey", key])
        C.run_harness(ctx, ["rsakey", key + ".2"])
    n = len(scenarios)
    slices = [(i, min(batch, n - i)) for i in range(0, n, batch)]
    workers = workers or min(C.NCPU, 12)

    def work(sl):
        start, count = sl
        events = []
        i = start
        end = start + count
        while i < end:
            log = os.path.join(ctx.wd, "ev-%d-%d.ndjson" % (start, i))
            if os.path.exists(log):
                os.remove(log)
            p = subprocess.run([ctx.harness_bin, "session", "-scenarios", scp, "-from", str(i), "-count", str(end - i),
                                "-log", log, "-key", key, "-settle", str(settle), "-timeout", str(timeout)],
                               capture_output=True, text=True, timeout=600, cwd=ctx.wd, env=C.go_env())
            evs = C.read_ndjson(log) if os.path.exists(log) else []
            events.extend(evs)
            ended = [e["sc"] for e in evs if e["e"] == "End"]
            started = [e["sc"] for e in evs if e["e"] == "Start"]
            if p.returncode == 0 and len(ended) >= end - i:
                break
            # died (or exited early) inside a scenario
            cur = started[-1] if started and (not ended or started[-1] != ended[-1]) else None
            if cur is None:
                if not started:
                    raise C.Broken("session child produced nothing (rc=%d): %s" % (p.returncode, p.stderr[-2000:]))
                idx = [s["id"] for s in scenarios].index(started[-1]) + 1
            else:
                stderr = p.stderr
                first = stderr.split("\n\n")[0:2]
                block = "\n".join(first)
                if "/repo/" not in block and "/verif/harness" in block:
                    raise C.Broken("harness panic in scenario %s:\n%s" % (cur, stderr[:3000]))
                head = stderr[:1200]
                frames = [l for l in stderr.splitlines() if "xelaj/mtproto" in l and "verifharness" not in l][:8]
                events.append({"e": "Dead", "sc": cur, "rc": p.returncode, "stderr": head, "frames": frames})
                events.append({"e": "End", "sc": cur, "ok": False})
                idx = [s["id"] for s in scenarios].index(cur) + 1
            i = idx
        return events

    allev = []
    with concurrent.futures.ThreadPoolExecutor(max_workers=workers) as ex:
        for evs in ex.map(work, slices):
            allev.extend(evs)
    by = {}
    for e in allev:
        by.setdefault(e["sc"], []).append(e)
    return by


def normalise(sc_id, events):
    """ids -> ranks, salts -> small ints, fixed field sets.  No inference."""
    ids = set()
    salts = {}

    def salt_rank(s):
        if s in (None, "", "none"):
            return 0
        if s not in salts:
            salts[s] = len(salts) + 1
        return salts[s]

    def collect(x):
        if isinstance(x, str) and x.lstrip("-").isdigit():
            ids.add(int(x))

    for e in events:
        if e["e"] in ("Wire", "Wire2"):
            collect(e.get("id"))
            for a in e.get("acks", []):
                collect(a)
        if e["e"] in ("SrvSend", "SrvSend2"):
            collect(e.get("sid"))
            collect(e.get("req"))
            b = e.get("body", {})
            collect(b.get("req"))
            collect(b.get("bad"))
            for it in b.get("items", []):
                collect(it.get("sid"))
                collect(it.get("body", {}).get("req"))
    rank = {v: k + 1 for k, v in enumerate(sorted(ids))}

    def r(x):
        try:
            return rank[int(x)]
        except (TypeError, ValueError, KeyError):
            return 0

    out = [{"e": "Reset", "sc": sc_id}]
    nconn = 0
    dc2_addr = None
    conns_seen = set()
    last_dc2 = [False]    # write order is observable per server only: the first frame after a change of data centre is not compared with the past
    # updates must be surfaced when the scenario installed a handler or a warning channel
    surface = any(e["e"] == "Start" and e.get("surface") for e in events)
    for e in events:
        k = e["e"]
        if k == "Call":
            out.append({"e": "Call", "c": e["c"], "tag": e["tag"], "kind": e["kind"]})
        elif k == "Wire":
            kind = e.get("kind", "unreadable")
            out.append({"e": "Wire", "kind": kind, "id": r(e.get("id")), "mod4": e.get("mod4", 0), "clock": bool(e.get("clock", True)),
                        "seq": e.get("seq", 0), "saltok": bool(e.get("saltok", True)), "tag": e.get("tag", 0),
                        "acks": [r(a) for a in e.get("acks", [])], "conn": e.get("conn", 0), "first": bool(conns_seen) and (e.get("conn", 0) >= 1000) != last_dc2[0]})
            conns_seen.add(e.get("conn", 0))
            last_dc2[0] = e.get("conn", 0) >= 1000
        elif k == "Wire2":
            if "tag" in e:
                out.append({"e": "Wire", "kind": "req", "id": r(e.get("id")), "mod4": int(e["id"]) & 3, "clock": True, "seq": e.get("seq", 1),
                            "saltok": True, "tag": e["tag"], "acks": [], "conn": e.get("conn", 1000), "first": bool(conns_seen) and not last_dc2[0]})
                conns_seen.add(e.get("conn", 1000))
                last_dc2[0] = True
        elif k == "SrvSend":
            b = e["body"]
            t = b.get("t", "push")
            rec = {"e": "SrvSend", "t": t if t in ("result", "container", "badsalt", "push") else "push", "sid": r(e.get("sid")),
                   "content": bool(e.get("content")), "req": r(b.get("req")), "val": _val(b.get("val")), "items": [],
                   "newsalt": 0, "what": b.get("what", t)}
            if t == "badsalt":
                rec["newsalt"] = salt_rank(b.get("new"))
            if t == "push" and b.get("what") == "new_session_newsalt":
                rec["newsalt"] = salt_rank(b.get("salt"))
            if t == "container":
                rec["items"] = [{"sid": r(it.get("sid")), "content": bool(it.get("content")), "req": r(it["body"].get("req")),
                                 "val": _val(it["body"].get("val")), "what": it["body"].get("what", "")} for it in b.get("items", [])]
            out.append(rec)
        elif k == "SrvSend2":
            out.append({"e": "SrvSend", "t": "result", "sid": 0, "content": False, "req": r(e.get("req")), "val": _val(e.get("val")),
                        "items": [], "newsalt": 0, "what": "result"})
        elif k == "Rotate":
            out.append({"e": "Rotate", "salt": salt_rank(e.get("salt"))})
        elif k == "Prefilled":
            out.append({"e": "Prefilled", "salt": salt_rank(e.get("salt"))})
        elif k == "HSDone":
            out.append({"e": "HSDone", "salt": salt_rank(e.get("salt"))})
        elif k == "SrvClose":
            out.append({"e": "SrvClose", "hard": bool(e.get("hard"))})
        elif k == "ConnOpen":
            nconn += 1
            out.append({"e": "ConnOpen", "conn": e["conn"], "first": e["first"], "n": nconn})
        elif k == "WrongHost":
            out.append({"e": "ConnectError"})
        elif k == "DC2":
            dc2_addr = e.get("addr")
            out.append({"e": "Note"})
        elif k == "Stored":
            out.append({"e": "Stored", "salt": salt_rank(e.get("salt")), "home": 2 if dc2_addr and e.get("addr") == dc2_addr else 1})
        elif k == "Return":
            out.append({"e": "Return", "c": e["c"], "val": _val(e.get("val"))})
        elif k == "Timeout":
            out.append({"e": "Timeout", "waiting": e.get("waiting", "")})
        elif k == "Dead":
            out.append({"e": "Dead"})
        elif k == "ConnectError":
            out.append({"e": "ConnectError"})
        elif k == "Update" or (k == "Warn" and "nonsystem message" in e.get("text", "")):
            out.append({"e": "Update"})
        elif k == "Restarted":
            out.append({"e": "Restarted"})
        elif k == "Connected":
            out.append({"e": "Connected"})
        elif k == "Plain":
            out.append({"e": "Plain"})
        elif k == "End":
            out.append({"e": "End", "ok": bool(e.get("ok")), "surface": surface})
        else:
            out.append({"e": k if k in ("Start", "Prefilled", "Connected", "Gate", "Plain", "HSDone", "ConnClose", "Warn", "Note", "FinalStore") else "Note"})
    return out


def evaluate(ctx, by_sc, order):
    """TLC judges every scenario's trace; returns verdict list [{sc,pos,kind}] and #events."""
    trace = []
    for sid in order:
        trace.extend(normalise(sid, by_sc.get(sid, [])))
    tp = os.path.join(ctx.wd, "client_trace-%d.ndjson" % len(os.listdir(ctx.wd)))
    C.write_ndjson(tp, trace)
    out = tp + ".verdicts"
    tv = C.run_tlc(ctx, "ClientTrace", "ClientTrace.cfg", workers=1, env={"VERIF_TRACE": tp, "VERIF_OUT": out},
                   timeout=3000, tag="trace-validation")
    if not os.path.exists(out):
        raise C.Broken("ClientTrace wrote no verdicts:\n" + tv.out[-3000:])
    return C.read_ndjson(out), len(trace)


def evidence_of(events):
    """Short description of what went wrong in a scenario, for the replay file."""
    keep = []
    for e in events:
        if e["e"] in ("Dead", "Timeout"):
            d = dict(e)
            if "dump" in d:
                d["dump"] = d["dump"][:1500]
            keep.append(d)
    return keep


def judge(ctx, scenarios, kinds, family, known_map=None, **kw):
    """Runs the scenarios, evaluates, reports verdicts of the given kinds as disagreements.
    Returns stats."""
    by = run_children(ctx, scenarios, **kw)
    ctx.last_events = by
    order = [s["id"] for s in scenarios]
    verdicts, nev = evaluate(ctx, by, order)
    scen = {s["id"]: s for s in scenarios}
    connected = sum(1 for sid in order if any(e["e"] == "Connected" for e in by.get(sid, [])))
    if connected * 2 < len(order):
        raise C.Broken("only %d of %d scenarios got a connection: the session-engine check cannot judge" % (connected, len(order)))
    ignored = {}
    for v in verdicts:
        if v["kind"].startswith("harness:"):
            raise C.Broken("trace evaluator: %s in scenario %s" % (v["kind"], v["sc"]))
        if v["kind"] not in kinds:
            ignored[v["kind"]] = ignored.get(v["kind"], 0) + 1
            continue
        s = scen.get(v["sc"], {})
        sig = "%s:%s" % (v["kind"], s.get("family", family))
        ctx.disagreement(sig, "scenario %s (%s): %s at event %d" % (v["sc"], s.get("name", ""), v["kind"], v["pos"]),
                         {"scenario": s, "verdict": v, "evidence": evidence_of(by.get(v["sc"], [])),
                          "events": by.get(v["sc"], [])[:400]})
    return {"scenarios": len(scenarios), "events": nev, "verdict_kinds": sorted({v["kind"] for v in verdicts}),
            "ignored_kinds": ignored, "sample": scenarios[:2]}


# ---------------------------------------------------------------- scenario construction
import random
import re

K_RESULT = {"result-of-another-request", "result-not-typed", "result-differs-from-answer", "result-delivered-twice",
            "result-without-answer", "return-without-call", "call-failed"}
K_LIVE = {"call-never-returned", "process-died"}
K_CONNECT = {"connect-failed", "connect-never-returned"}
K_WIRE = {"msgid-not-multiple-of-4", "msgid-not-from-clock", "msgid-not-increasing", "msgid-reused", "seqno-even-for-content",
          "seqno-odd-for-ack", "seqno-decreasing", "content-message-never-acknowledged", "ack-of-unknown-id",
          "frame-server-cannot-open"}
K_SALT = {"accepted-request-resent", "rejected-request-not-resent", "salt-not-persisted", "request-nobody-asked-for"}
K_CONN = {"reconnect-with-key-exchange", "update-not-surfaced"}
ALL_KINDS = ["object", "bool", "vecint", "vecobj", "error"]
JUNK = ["unsolicited", "repeated", "unknown", "truncated"]


def tlc_schedules(ctx, cfg, num, depth=150):
    """Behaviours of spec/Client.tla by seeded simulation; returns the recorded controllable steps."""
    res = C.run_tlc(ctx, "ClientGen", cfg, workers=1, simulate="num=%d" % num, extra=["-depth", str(depth), "-seed", str(ctx.seed)],
                    timeout=600, tag="generate:" + cfg)
    out = []
    for m in re.finditer(r'<<"SCHEDULE", "(.*)">>', res.out):
        out.append(json.loads(json.loads('"' + m.group(1) + '"')))
    if not out:
        raise C.Broken("no schedules from %s:\n%s" % (cfg, res.out[-1500:]))
    # distinct ones only
    seen, uniq = set(), []
    for h in out:
        k = json.dumps(h, sort_keys=True)
        if k not in seen:
            seen.add(k)
            uniq.append(h)
    return uniq


def project(hist, rng, kinds, gate="send.genid", tagbase=10):
    """TLC behaviour -> harness steps (the schedule only; what the code then does is recorded and judged)."""
    callers = sorted({h["c"] for h in hist if "c" in h})
    tag = {c: tagbase + i + 1 for i, c in enumerate(callers)}
    kind = {c: rng.choice(kinds) for c in callers}
    # the model's result kind of each caller, when the behaviour carries one: "vec" -> a vector result, "obj" -> the others
    for h in hist:
        if h.get("a") == "Call" and h.get("k") in ("vec", "obj"):
            pool = [k for k in kinds if k.startswith("vec")] if h["k"] == "vec" else [k for k in kinds if not k.startswith("vec")]
            if pool and (kind[h["c"]] not in pool):
                kind[h["c"]] = rng.choice(pool)
    started = set()
    steps = []
    for h in hist:
        a = h["a"]
        if a == "Call":
            if h["c"] in started:
                steps.append({"a": "WaitParked", "c": h["c"]})
            else:
                started.add(h["c"])
                steps.append({"a": "Call", "c": h["c"], "tag": tag[h["c"]], "kind": kind[h["c"]]})
        elif a == "Release":
            steps.append({"a": "Release", "c": h["c"]})
        elif a == "Answer":
            who = [c for c in h["who"] if c in tag]
            st = {"a": "Answer", "tags": [tag[c] for c in who], "container": len(who) > 1 or rng.random() < 0.15,
                  "gzip": [bool(h["gz"]) if "gz" in h and h["gz"] else rng.random() < 0.3 for _ in who], "n": 250}
            if h.get("junk"):   # the model's item nobody waits for; which kind and where in the container is free
                st.update(container=True, junk=rng.choice(JUNK), junkat=rng.choice(["first", "last"]))
            steps.append(st)
        elif a == "Rotate":
            steps.append({"a": "Rotate"})
        elif a == "Close":
            steps.append({"a": "Close"})
        elif a == "BadCall":
            steps.append({"a": "BadCall"})
    steps += [{"a": "Drain"}, {"a": "Settle"}]
    return steps


def mk(sid, name, family, steps=None, fresh=False, gates=(), warnings=True, handler=True, **kw):
    sc = {"id": sid, "name": name, "family": family, "fresh": fresh, "gates": list(gates), "warnings": warnings, "handler": handler,
          "steps": steps or [], "seed": sid}
    sc.update(kw)
    return sc


def call(c, tag, kind="object"):
    return {"a": "Call", "c": c, "tag": tag, "kind": kind}


def run_c17_part(ctx):
    """End-to-end half of C17: rpc_error reaches its caller as a structured error; PHONE_MIGRATE_X."""
    scs = []
    sid = 1
    for kind in ("error", "error_plain"):
        scs.append(mk(sid, "rpc-error-" + kind, "rpcerror", [call("c1", 11, kind), call("c2", 12, "object"),
                   {"a": "Answer", "tags": [12, 11], "container": True}, {"a": "Drain"}, {"a": "Settle"}]))
        sid += 1
    scs.append(mk(sid, "migrate-configured", "migrate", [{"a": "Probe", "tag": 90}, call("c1", 11), {"a": "AnswerError", "tag": 11, "code": 303, "text": "PHONE_MIGRATE_2"},
               {"a": "Await", "c": "c1"}, {"a": "Settle"}], dc={"dc2": 2}))
    # the application's session storage fails while the migration is handled: the request is still repeated at the new data centre
    sid += 1
    scs.append(mk(sid, "migrate-configured-while-the-store-fails", "migrate", [{"a": "Probe", "tag": 90}, call("c1", 11), {"a": "AnswerError", "tag": 11, "code": 303, "text": "PHONE_MIGRATE_2"},
               {"a": "Await", "c": "c1"}, {"a": "Probe", "tag": 91}, {"a": "Settle"}], dc={"dc2": 2}, failstore=True))
    # the repeated request is the same request: what it registered with the decoder (vector results) goes with it
    for kind in ("vecint", "vecobj", "bool"):
        sid += 1
        scs.append(mk(sid, "migrate-configured-" + kind, "migrate", [{"a": "Probe", "tag": 90}, call("c1", 11, kind),
                   {"a": "AnswerError", "tag": 11, "code": 303, "text": "PHONE_MIGRATE_2"}, {"a": "Await", "c": "c1"}, {"a": "Settle"}], dc={"dc2": 2}))
    # after the migration the first data centre closes what is left of the abandoned connection: nothing of the client
    # listens there any more, the requests at the second data centre are not disturbed
    for k in range(3):
        sid += 1
        scs.append(mk(sid, "old-dc-closes-after-migration", "migrate", [{"a": "Probe", "tag": 90}, call("c1", 11),
                   {"a": "AnswerError", "tag": 11, "code": 303, "text": "PHONE_MIGRATE_2"}, {"a": "Await", "c": "c1"},
                   {"a": "CloseOld"}] + [{"a": "Probe", "tag": 91 + i} for i in range(6)] + [{"a": "Sleep", "n": 150}, {"a": "Probe", "tag": 99}, {"a": "Settle"}],
                   dc={"dc2": 2}))
    sid += 1
    scs.append(mk(sid, "migrate-unconfigured", "migrate", [{"a": "Probe", "tag": 90}, call("c1", 11),
               {"a": "AnswerError", "tag": 11, "code": 303, "text": "PHONE_MIGRATE_9", "what": "anyerror"}, {"a": "Await", "c": "c1"}, {"a": "Settle"}], dc={"dc2": 2}))
    # another client object of the same process (a second account) has data centres 9 and 7 in its own list - at a live
    # address: this client's list is its own, the migration is still one to an unconfigured data centre
    for first in (False, True):
        sid += 1
        scs.append(mk(sid, "migrate-unconfigured-here-configured-in-another-client", "migrate", [{"a": "Probe", "tag": 90}, call("c1", 11),
                   {"a": "AnswerError", "tag": 11, "code": 303, "text": "PHONE_MIGRATE_9", "what": "anyerror"}, {"a": "Await", "c": "c1"},
                   {"a": "Probe", "tag": 91}, {"a": "Settle"}], dc={"dc2": 2}, otherdcs=[9, 7], otherfirst=first))
    # several migrations to unconfigured data centres on one client, then ordinary traffic and a salt rotation
    sid += 1
    scs.append(mk(sid, "migrate-unconfigured-twice", "migrate", [{"a": "Probe", "tag": 90}, call("c1", 11),
               {"a": "AnswerError", "tag": 11, "code": 303, "text": "PHONE_MIGRATE_9", "what": "anyerror"}, {"a": "Await", "c": "c1"},
               call("c2", 12), {"a": "AnswerError", "tag": 12, "code": 303, "text": "PHONE_MIGRATE_7", "what": "anyerror"}, {"a": "Await", "c": "c2"},
               call("c3", 13), {"a": "AnswerError", "tag": 13, "code": 303, "text": "PHONE_MIGRATE_9", "what": "anyerror"}, {"a": "Await", "c": "c3"},
               {"a": "Rotate"}, {"a": "Probe", "tag": 91}, {"a": "Settle"}], dc={"dc2": 2}))
    # migration after migration (each followed by a restart, which brings the client back to the stored first data
    # centre): the caller's reconnect runs while the receive loop of the old connection is still winding down
    for k in range(12 if ctx.tier == "thorough" else 6):
        sid += 1
        steps, tag = [{"a": "Probe", "tag": 90}], 100
        for _ in range(20):
            tag += 1
            steps += [call("m%d" % tag, tag), {"a": "AnswerError", "tag": tag, "code": 303, "text": "PHONE_MIGRATE_2"}, {"a": "Await", "c": "m%d" % tag},
                      {"a": "Restart"}]
        steps += [{"a": "Probe", "tag": 91}, {"a": "Settle"}]
        scs.append(mk(sid, "many-migrations", "migrate", steps, dc={"dc2": 2}))
    # PHONE_MIGRATE without a usable number is an error like any other: returned, never a crash
    for text in ("PHONE_MIGRATE_X", "PHONE_MIGRATE_", "PHONE_MIGRATE_abc", "PHONE_MIGRATE_%d", "PHONE_MIGRATE_99999999999999999999"):
        sid += 1
        scs.append(mk(sid, "migrate-text-" + text, "migrate", [{"a": "Probe", "tag": 90}, call("c1", 11),
                   {"a": "AnswerError", "tag": 11, "code": 303, "text": text}, {"a": "Await", "c": "c1"}, {"a": "Probe", "tag": 91}, {"a": "Settle"}], dc={"dc2": 2}))
    # PHONE_MIGRATE_X is the one error that is handled: its 303 relatives are returned to the caller like every other error,
    # with the second data centre configured and never contacted
    for text in ("USER_MIGRATE_2", "NETWORK_MIGRATE_2", "FILE_MIGRATE_2", "STATS_MIGRATE_2"):
        sid += 1
        scs.append(mk(sid, "not-handled-" + text, "migrate", [{"a": "Probe", "tag": 90}, call("c1", 11),
                   {"a": "AnswerError", "tag": 11, "code": 303, "text": text}, {"a": "Await", "c": "c1"}, {"a": "Probe", "tag": 91}, {"a": "Settle"}], dc={"dc2": 2}))
    st = judge(ctx, scs, K_RESULT | K_LIVE | K_CONNECT | {"rejected-request-not-resent", "accepted-request-resent", "request-nobody-asked-for"}, "c17")
    return {"histories": len(scs), "evaluations": st["events"], "coverage": {"end_to_end": st}}


K_LIFE = {"key-exchange-with-key-held", "request-sent-to-the-old-data-centre", "resumed-without-the-stored-salt", "reconnect-with-key-exchange"}


def tlc_lives(ctx, num):
    """Behaviours of spec/Lifecycle.tla (tlc -simulate): lives of a client across restarts."""
    res = C.run_tlc(ctx, "LifecycleGen", "LifecycleGen.cfg", workers=1, simulate="num=%d" % num, extra=["-depth", "80", "-seed", str(ctx.seed)],
                    timeout=600, tag="generate:LifecycleGen.cfg")
    out, seen = [], set()
    for m in re.finditer(r'<<"LIFE", "(.*)">>', res.out):
        txt = json.loads('"' + m.group(1) + '"')
        if txt not in seen:
            seen.add(txt)
            out.append(json.loads(txt))
    if not out:
        raise C.Broken("no lives from LifecycleGen:\n" + res.out[-1500:])
    return out


def project_life(life, sid):
    """Lifecycle behaviour -> one harness scenario (the first Start is the scenario's own start)."""
    steps, tag, started, restarts = [], 100, False, 0
    fresh = not life[0].get("prefilled")
    i = 1
    while i < len(life):
        a = life[i]["a"]
        if a == "Start":
            if started:
                steps += [{"a": "Drain"}, {"a": "Restart"}]
                restarts += 1
            started = True
        elif a == "Call":
            tag += 1
            steps.append({"a": "Probe", "tag": tag})
        elif a == "Rotate":
            steps.append({"a": "Rotate"})
        elif a == "Migrate":
            tag += 1
            steps += [call("m%d" % tag, tag), {"a": "AnswerError", "tag": tag, "code": 303, "text": "PHONE_MIGRATE_2"}, {"a": "Await", "c": "m%d" % tag}]
        i += 1
    if steps and steps[-1]["a"] == "Restart":
        steps.append({"a": "Probe", "tag": tag + 1})
    steps.append({"a": "Settle"})
    return mk(sid, "life", "resume", steps, fresh=fresh, dc={"dc2": 2}), restarts


def run_c12_part(ctx):
    """Resume half of C12: a client started on a store that holds a session uses that key, salt and
    address without a key exchange (the configured address is a decoy)."""
    scs = [mk(1, "resume", "resume", [{"a": "Probe", "tag": 90}, {"a": "Probe", "tag": 91}, {"a": "Settle"}]),
           mk(2, "resume-decoy-host", "resume", [{"a": "Probe", "tag": 90}, {"a": "Settle"}], decoy=True),
           mk(3, "fresh-then-store", "resume", [{"a": "Probe", "tag": 90}, {"a": "Settle"}], fresh=True)]
    by = run_children(ctx, scs, batch=1)
    verdicts, nev = evaluate(ctx, by, [s["id"] for s in scs])
    for v in verdicts:
        ctx.disagreement("resume:" + v["kind"], "resume scenario %s: %s" % (v["sc"], v["kind"]),
                         {"scenario": scs[v["sc"] - 1], "verdict": v, "events": by.get(v["sc"], [])[:200]})
    # direct reading of the logs: first frame of a resumed client carries the stored key, the stored salt is accepted
    for sc in scs[:2]:
        evs = by.get(sc["id"], [])
        opens = [e for e in evs if e["e"] == "ConnOpen"]
        wires = [e for e in evs if e["e"] == "Wire"]
        if not opens or opens[0]["first"] != "keyid" or any(e["e"] == "Plain" for e in evs):
            ctx.disagreement("resume:key-exchange-on-resume", "a client with a stored session started a key exchange", {"scenario": sc, "events": evs[:60]})
        elif not wires or not wires[0].get("keyok") or not wires[0].get("saltok"):
            ctx.disagreement("resume:stored-key-or-salt-not-used", "first frame of a resumed client is not under the stored key and salt", {"scenario": sc, "events": evs[:60]})
    # lives across restarts generated from spec/Lifecycle.tla
    thorough = ctx.tier == "thorough"
    mc = C.run_tlc(ctx, "Lifecycle", "Lifecycle.cfg", workers=4, timeout=600, deadlock=False, tag="Lifecycle.cfg")
    for d in ("HandshakeOnResume", "IgnoreStoredAddress", "IgnoreStoredSalt", "SaltNotStored"):
        C.run_tlc(ctx, "Lifecycle", "LifecycleDev%s.cfg" % d, workers=2, timeout=300, deadlock=False, expect_violation=True, tag="sensitivity:" + d)
    lives = tlc_lives(ctx, 300 if thorough else 60)
    lscs, nrestart = [], 0
    for life in lives:
        sc, k = project_life(life, len(lscs) + 1)
        if k == 0:
            continue
        lscs.append(sc)
        nrestart += k
        if len(lscs) >= (120 if thorough else 16):
            break
    if len(lscs) < 5:
        raise C.Broken("Lifecycle.tla gave fewer than 5 lives with a restart")
    st = judge(ctx, lscs, K_RESULT | K_LIVE | K_CONNECT | K_SALT | K_LIFE, "resume")
    return {"histories": len(scs) + len(lscs),
            "coverage": {"resume_scenarios": len(scs), "resume_events": nev, "lifecycle_states": mc.distinct, "lives_replayed": len(lscs),
                         "restarts_replayed": nrestart, "lifecycle_events": st["events"], "lifecycle_verdict_kinds": st["verdict_kinds"]}}
