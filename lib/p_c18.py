"""C18 - the 2FA SRP answer (spec/SRP.tla toy instance, SRPGen.tla term instance)."""
import json
import os

import common as C


def run(ctx):
    thorough = ctx.tier == "thorough"
    mc = C.run_tlc(ctx, "SRP", "SRP.cfg", workers=C.NCPU, timeout=900)
    for d in ("NoPadS", "NoPadA", "NoPadB", "NoRangeCheck"):
        C.run_tlc(ctx, "SRP", "SRPDev%s.cfg" % d, workers=4, expect_violation=True, timeout=300, tag="sensitivity:" + d)
    cases = os.path.join(ctx.wd, "srp_cases.ndjson")
    C.run_tlc(ctx, "SRPGen", "SRPGenThorough.cfg" if thorough else "SRPGen.cfg", workers=1, env={"VERIF_OUT": cases}, timeout=300, tag="generate")
    all_cases = C.read_ndjson(cases)
    reps = 12 if thorough else 1
    tot = {"evaluations": 0, "sig_counts": {}, "samples": []}
    for k in range(reps):
        r = C.run_harness(ctx, ["srp", "-cases", cases, "-seed", str(ctx.seed * 100 + k)], timeout=3000)
        rep = json.loads(r.stdout)
        tot["evaluations"] += rep["evaluations"]
        tot["samples"] = rep["samples"]
        for kk, v in rep["sig_counts"].items():
            tot["sig_counts"][kk] = tot["sig_counts"].get(kk, 0) + v
        for d in rep["disagreements"]:
            ctx.disagreement(d["sig"], d["detail"], d["case"])
    C.write_evidence(ctx, "model_checking", {
        "states": mc.distinct, "transitions": mc.generated, "traces_validated_against_impl": tot["evaluations"],
        "evaluations": tot["evaluations"], "distinct_nontrivial": len(all_cases),
        "rule": "SRP.tla (group mod 23): every a, b, password value, hash values u and k, leading-zero classes of A, B, S, and B in {ok, 0, p, p+1, "
                "short, long}: the right password is accepted, another one rejected (up to chance collisions of the toy group), empty -> "
                "'no password', invalid B refused; dropping any pad256 or the range check must break it. SRPGen: the server side as terms "
                "(PH1/PH2 with PBKDF2 x100000, v, k, B, u, S, M1) interpreted for the 2048-bit group; telegram.GetInputCheckPassword answers "
                "for the right and for another password judged by it over password classes x salt lengths 0..64 x forced leading zeros of A "
                "/ B / S (server secret by search, client secret through hook VerifSRPAnswer), invalid B values, empty password",
        "samples": tot["samples"], "exhaustive": False, "disagreement_signatures": tot["sig_counts"],
    }, ["SHA-256, PBKDF2-HMAC-SHA512 and math/big are trusted", "forced corners use 64-bit secrets on Telegram's 2048-bit group"])


def replay(ctx, path):
    rec = json.load(open(path))
    print("C18 replay: class %s seed %s" % (rec["case"].get("class"), rec["case"].get("seed")))
    ctx.seed = rec["seed"]
    run(ctx)
