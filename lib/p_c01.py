"""C01 - TL codec round trip (spec/TLCodec.tla, TLCodecMC.tla, TLCodecGen.tla)."""
import common as C
import p_codec


def run(ctx):
    mc, rep, ncases, mine = p_codec.run_cases(ctx, "C01")
    C.write_evidence(ctx, "model_checking", {
        "states": mc.distinct, "transitions": mc.generated, "traces_validated_against_impl": rep["extra"]["round_trips"],
        "evaluations": rep["evaluations"], "distinct_nontrivial": rep["distinct"],
        "rule": "TLCodecMC: every layout of up to %d fields over 7 kinds with bits {none,0,1,31} (shared bits, flags word at every legal position) "
                "x small value classes: RoundTrip through a layout-only decoder, GroupRule (a present group that drops a member cannot be read "
                "back), word alignment; TLCodecGen: for every definition of api_121.tl and the wire-used ones of mtproto.tl the pattern family "
                "(min, full, shared-group zero members, groups alone, present-empty vectors; for a seed-chosen sixth (all in thorough) each "
                "bit alone / removed, string lengths 0..5 and 252..257, scalar extremes, enum members; 65535/65536/2^24-1 carriers) built "
                "as Go values by position; Marshal twice, DecodeUnknownObject and Decode of the output must give the value back; distinct = "
                "constructors" % (3 if ctx.tier == "thorough" else 2),
        "samples": rep["samples"], "exhaustive": False, "cases": ncases, "disagreement_signatures": mine,
    }, ["values are compared with reflect.DeepEqual; required slices are built non-nil", "the hand-written codecs msg_container (0..3 items), rpc_result and gzip_packed are round-tripped through their own "
        "specification images (TLCodecGen!SpecialCases); msg_copy and future_salts only in the decode direction (C15/C16)"])


def replay(ctx, path):
    import json
    rec = json.load(open(path))
    print("replay: %s pattern %s; re-running the case generation with seed %d" % (rec["case"].get("name"), rec["case"].get("pat"), rec["seed"]))
    ctx.seed = rec["seed"]
    ctx.tier = rec.get("tier", "quick")
    import importlib
    importlib.import_module("p_" + ctx.pid.lower()).run(ctx)
