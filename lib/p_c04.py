"""C04 - forged or altered packets (spec/EnvelopeToy.tla receive machine, EnvelopeTerm.tla mutation cases)."""
import common as C
from p_c03 import run_env, replay  # noqa: F401


def run(ctx):
    mc, rep, ncases = run_env(ctx, "c04")
    C.write_evidence(ctx, "model_checking", {
        "states": mc.distinct, "transitions": mc.generated,
        "traces_validated_against_impl": rep["extra"]["mutated_packets"],
        "evaluations": rep["evaluations"], "distinct_nontrivial": rep["distinct"],
        "rule": "EnvelopeToy: the receive machine (checks in the code's order) on every mutation class of a sealed packet - "
                "refused unless a consistent re-sealing by the key holder, never a panic state; EnvelopeTerm: for 4 (7) body "
                "lengths, 19 mutation classes with seeded positions (every bit in thorough) and every declared length in "
                "{-2^31+1, -1, n-33..n+33, 2^31-1} re-sealed with the key; the expected verdict is the specification's "
                "five-check Accept evaluated on the actual mutated bytes; DeserializeEncrypted run under recover",
        "samples": rep["samples"], "exhaustive": False, "mutation_cases": ncases,
        "disagreement_signatures": rep["sig_counts"],
    }, ["SHA-1 / AES trusted; a random bit flip is refused because the recomputed msg_key differs (decided by computation, not assumed)"])
