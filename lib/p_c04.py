"""C04 - forged or altered packets (spec/EnvelopeToy.tla receive machine, EnvelopeTerm.tla mutation cases)."""
import common as C
from p_c03 import run_env, replay  # noqa: F401


def through_the_client(ctx):
    """An altered copy of a packet that has just been accepted is refused like any altered packet: the object the packet
    carried reaches the application once.  (Through transport.ReadMsg and the receive loop, not only the parser.)"""
    import p_session as S
    scs = []
    sid = 0
    for what in ("flip-ct", "flip-keyid", "cut-block", "cut-tail"):
        sid += 1
        scs.append(S.mk(sid, "altered-copy-" + what, "replay",
                        [{"a": "Probe", "tag": 90}, {"a": "Push", "what": "api_object"}, {"a": "Settle"},
                         {"a": "ReplayAltered", "what": what}, {"a": "ReplayAltered", "what": what}, {"a": "Settle"}, {"a": "Probe", "tag": 91}, {"a": "Settle"}]))
    by = S.run_children(ctx, scs, batch=2)
    n = 0
    for sc in scs:
        evs = by.get(sc["id"], [])
        n += len(evs)
        if not any(e["e"] == "Connected" for e in evs):
            raise C.Broken("replay scenario %s got no connection" % sc["name"])
        ups = sum(1 for e in evs if e["e"] == "Update")
        dead = [e for e in evs if e["e"] in ("Dead", "Timeout")]
        if ups > 1:
            ctx.disagreement("C04:altered-copy-accepted:" + sc["name"].split("-", 2)[2],
                             "an altered copy of a just accepted packet was accepted: the object it carried reached the handler %d times" % ups,
                             {"scenario": sc, "events": evs[:120]})
        elif ups == 0:
            raise C.Broken("replay scenario %s: the unaltered packet was not delivered" % sc["name"])
        if dead:
            ctx.disagreement("C04:altered-copy-kills:" + sc["name"].split("-", 2)[2], "the client died or stalled on an altered copy", {"scenario": sc, "events": evs[:120]})
    return len(scs), n


def run(ctx):
    mc, rep, ncases = run_env(ctx, "c04")
    nsc, nev = through_the_client(ctx)
    C.write_evidence(ctx, "model_checking", {
        "states": mc.distinct, "transitions": mc.generated,
        "traces_validated_against_impl": rep["extra"]["mutated_packets"],
        "evaluations": rep["evaluations"], "distinct_nontrivial": rep["distinct"],
        "rule": "EnvelopeToy: the receive machine (checks in the code's order) on every mutation class of a sealed packet - "
                "refused unless a consistent re-sealing by the key holder, never a panic state; EnvelopeTerm: for 4 (7) body "
                "lengths, 19 mutation classes with seeded positions (every bit in thorough) and every declared length in "
                "{-2^31+1, -1, n-33..n+33, 2^31-1} re-sealed with the key; the expected verdict is the specification's "
                "five-check Accept evaluated on the actual mutated bytes; DeserializeEncrypted run under recover; through the whole client: "
                "an altered copy (bit flip in ciphertext / key id, cut by a block / inside a block) of a packet just accepted is not accepted",
        "samples": rep["samples"], "exhaustive": False, "mutation_cases": ncases,
        "disagreement_signatures": rep["sig_counts"],
    }, ["SHA-1 / AES trusted; a random bit flip is refused because the recomputed msg_key differs (decided by computation, not assumed)"])
