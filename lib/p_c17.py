"""C17 - RPC errors as structured errors (text part: spec/RpcErrorDef.tla, spec/RpcError.tla;
end-to-end delivery and PHONE_MIGRATE are exercised by the session-engine runs, see p_session)."""
import json
import os

import common as C


def run(ctx):
    thorough = ctx.tier == "thorough"
    mc = C.run_tlc(ctx, "RpcError", "RpcError.cfg", workers=C.NCPU, timeout=900)
    C.run_tlc(ctx, "RpcError", "RpcErrorDevAtoi.cfg", workers=2, expect_violation=True, timeout=300,
              tag="sensitivity:AtoiPanics")
    out = os.path.join(ctx.wd, "rpcerror_cases.ndjson")
    C.run_tlc(ctx, "RpcErrorGen", "RpcErrorGen.cfg", workers=1, env={"VERIF_OUT": out}, timeout=600, tag="generate")
    ncases = sum(1 for _ in open(out))
    r = C.run_harness(ctx, ["rpcerror", "-cases", out, "-seed", str(ctx.seed), "-repo", C.REPO,
                            "-concretisations", "30" if thorough else "3"], timeout=1800)
    rep = json.loads(r.stdout)
    for d in rep["disagreements"]:
        ctx.disagreement(d["sig"], d["detail"], d["case"])
    extra = {}
    try:
        import p_session
        extra = p_session.run_c17_part(ctx)
    except ImportError:
        pass
    cov = {
        "states": mc.distinct, "transitions": mc.generated,
        "traces_validated_against_impl": ncases + extra.get("histories", 0),
        "evaluations": rep["evaluations"] + extra.get("evaluations", 0), "distinct_nontrivial": rep["distinct"],
        "rule": "every token-structured text of RpcErrorDef!Texts (15 table rows, truncated prefixes, 0-2 middle tokens "
                "over 13 parameter classes and words, 3 suffixes and near-misses) enumerated by TLC with its declared "
                "(message, parameter); seeded concretisations run through RpcErrorToNative/TryExpandError; plus every "
                "catalogued name extracted from errors.go; distinct = distinct concrete texts",
        "samples": rep["samples"], "exhaustive": True, "texts": ncases,
        "catalogue_names": rep["extra"].get("catalogue_names"),
        "disagreement_signatures": rep["sig_counts"],
    }
    cov.update(extra.get("coverage", {}))
    import p_boot
    cov["bootstrap"] = p_boot.run(ctx, p_boot.K_C17, 300 if ctx.tier == "thorough" else 70, "C17")
    cov["traces_validated_against_impl"] += cov["bootstrap"]["scenarios"]
    C.write_evidence(ctx, "model_checking", cov,
                     ["strconv.Atoi decides what a decimal number is", "error descriptions are compared with the catalogue in errors.go of the working tree"])


def replay(ctx, path):
    rec = json.load(open(path))
    out = os.path.join(ctx.wd, "one.ndjson")
    C.write_ndjson(out, [{"text": rec["case"]["tokens"], "expect": rec["case"]["expect"]}])
    r = C.run_harness(ctx, ["rpcerror", "-cases", out, "-seed", str(rec["seed"]), "-repo", C.REPO, "-concretisations", "20"])
    rep = json.loads(r.stdout)
    for d in rep["disagreements"]:
        ctx.disagreement(d["sig"], d["detail"], d["case"])
    print("replayed ->", rep["sig_counts"] or "agrees")
