"""C02 - wire format equals the schema-defined serialisation (spec/TLCodec.tla, SchemaDefs.tla, TLCodecGen.tla)."""
import common as C
import p_codec
from p_c01 import replay  # noqa: F401


def run(ctx):
    mc, rep, ncases, mine = p_codec.run_cases(ctx, "C02")
    C.write_evidence(ctx, "model_checking", {
        "states": mc.distinct, "transitions": mc.generated, "traces_validated_against_impl": ncases,
        "evaluations": rep["evaluations"], "distinct_nontrivial": rep["distinct"],
        "rule": "the layout of every definition is read from the .tl text by SchemaDefs!T (own lexer + TLA+ interpretation: flag bits, position "
                "of flags:#, order, Vector, Bool, 128/256-bit); TLCodec!EncObj gives the byte image of each pattern value (little-endian "
                "words as 16-bit groups, string headers as literal bytes, alignment, vector prefix, Bool ids); tl.Marshal of the Go value "
                "built by position must equal the image byte for byte, the image must decode to the value, a 2^24-byte string must be "
                "refused; distinct = constructors",
        "samples": rep["samples"], "exhaustive": False, "cases": ncases, "disagreement_signatures": mine,
    }, ["payload bytes of strings are a fixed function of (length, tag) used on both sides", "CRC ids are taken from the schema text (checked against CRC-32 of the canonical line by C13)"])
