"""C10 - msg_id, seq_no and acknowledgement rules of the outgoing stream (spec/Client.tla, ClientTrace.tla)."""
import random

import common as C
import p_session as S
from p_c09 import model_check, replay  # noqa: F401


def scenarios(ctx, thorough):
    rng = random.Random(ctx.seed + 10)
    scs = []
    sid = 0
    hists = S.tlc_schedules(ctx, "ClientGenOrder.cfg", 500 if thorough else 80)
    for h in hists[: (350 if thorough else 45)]:
        sid += 1
        scs.append(S.mk(sid, "tlc-order", "order", S.project(h, rng, ["object"]), gates=["send.genid"], fresh=(sid % 11 == 0)))
    # the named inversion: first caller held right after it took its id, second runs to completion
    for n in (2, 3, 4):
        sid += 1
        cs = ["c%d" % i for i in range(1, n + 1)]
        steps = [S.call(c, 10 + i) for i, c in enumerate(cs)] + [{"a": "Release", "c": c} for c in reversed(cs)] + \
                [{"a": "Answer", "tags": [10 + i for i in range(n)], "container": True, "n": 300}, {"a": "Drain"}, {"a": "Settle"}]
        scs.append(S.mk(sid, "held-after-id-%d" % n, "order", steps, gates=["send.genid"]))
    # server histories mixing content-related and service messages, plain and in containers: all must be acknowledged
    sid += 1
    scs.append(S.mk(sid, "ack-mix", "order", [{"a": "Probe", "tag": 90}, {"a": "Push", "what": "update_short"}, {"a": "Push", "what": "pong"},
               {"a": "Push", "what": "new_session"}, {"a": "Push", "what": "msgs_ack"}, S.call("c1", 11), S.call("c2", 12),
               {"a": "Answer", "tags": [11, 12], "container": True}, {"a": "Push", "what": "api_object"}, {"a": "Drain"}, {"a": "Settle"}]))
    # a clock that stands still, or is set back: ids must still strictly increase in write order
    for clock in ("frozen", "stepback"):
        for n in (1, 4):
            sid += 1
            cs = ["c%d" % i for i in range(1, n + 1)]
            steps = [{"a": "Probe", "tag": 90}, {"a": "Probe", "tag": 91}] + [S.call(c, 10 + i) for i, c in enumerate(cs)] + \
                    [{"a": "Answer", "tags": [10 + i for i in range(n)], "container": n > 1, "n": 400}, {"a": "Drain"}] + \
                    [{"a": "Probe", "tag": 92 + k} for k in range(6)] + [{"a": "Settle"}]
            scs.append(S.mk(sid, "clock-%s-%d" % (clock, n), "order", steps, clock=clock))
        sid += 1
        scs.append(S.mk(sid, "clock-%s-random" % clock, "order", mode="random", callers=6, calls=3, rotate=0, kinds=["object"],
                        gates=["send.genid"], seed=ctx.seed * 1000 + 700 + sid, clock=clock))
    # a session store that fails: what the server sends is acknowledged all the same
    sid += 1
    scs.append(S.mk(sid, "ack-with-failing-store", "order", [{"a": "Probe", "tag": 90}, {"a": "Push", "what": "new_session_newsalt"}, {"a": "Settle"},
               {"a": "Push", "what": "api_object"}, {"a": "Probe", "tag": 91}, {"a": "Rotate"}, {"a": "Probe", "tag": 92}, {"a": "Settle"}], failstore=True))
    # the server closes the connection: the client reconnects within the same session, seq_no and msg_id go on
    sid += 1
    scs.append(S.mk(sid, "seqno-across-reconnect", "order", [{"a": "Probe", "tag": 90}, {"a": "Probe", "tag": 91}, {"a": "Probe", "tag": 92},
               {"a": "Sleep", "n": 80}, {"a": "Close"}, {"a": "Probe", "tag": 93}, {"a": "Probe", "tag": 94}, {"a": "Sleep", "n": 80}, {"a": "Close"},
               {"a": "Probe", "tag": 95}, {"a": "Settle"}]))
    # results nobody waits for are content-related messages too: alone and inside containers
    sid += 1
    scs.append(S.mk(sid, "ack-unsolicited", "order", [{"a": "Probe", "tag": 90}, {"a": "Push", "what": "unsolicited_result"}, {"a": "Probe", "tag": 91},
               {"a": "Push", "what": "repeated_result"}, {"a": "Probe", "tag": 92}, {"a": "Settle"}]))
    # the server's copy of an acknowledgement was lost: it sends the same content-related message again (same msg_id), alone or
    # in a container next to a new one - every copy received is answered by an acknowledgement naming it
    for what in ("content_then_again", "content_then_again_in_container"):
        sid += 1
        scs.append(S.mk(sid, "ack-" + what.replace("_", "-"), "order", [{"a": "Probe", "tag": 90}, {"a": "Push", "what": what}, {"a": "Probe", "tag": 91},
                        {"a": "Push", "what": what}, {"a": "Settle"}]))
    # a hundred content-related messages that arrive in another order than their msg_ids were handed out
    sid += 1
    scs.append(S.mk(sid, "ack-shuffled-ids", "order", [{"a": "Probe", "tag": 90}, {"a": "Push", "what": "shuffled_ids"}, {"a": "Sleep", "n": 400}, {"a": "Probe", "tag": 91},
                    {"a": "Settle"}], handler=False, warnings=False))
    for junk in ("unsolicited", "repeated"):
        for at in ("first", "last"):
            sid += 1
            scs.append(S.mk(sid, "ack-container-%s-%s" % (junk, at), "order",
                            [{"a": "Probe", "tag": 90}, S.call("c1", 11), S.call("c2", 12),
                             {"a": "Answer", "tags": [11, 12], "container": True, "junk": junk, "junkat": at, "n": 400}, {"a": "Drain"}, {"a": "Settle"}]))
    for k in range(16 if thorough else 4):
        sid += 1
        scs.append(S.mk(sid, "random", "order", mode="random", callers=8, calls=4, rotate=0, kinds=["object", "bool"],
                        gates=["send.genid", "send.written"], seed=ctx.seed * 1000 + 500 + k))
    return scs


def run(ctx):
    thorough = ctx.tier == "thorough"
    mc = model_check(ctx, thorough)
    C.run_tlc(ctx, "Client", "ClientDevGenIdOutsideLock.cfg", workers=4, expect_violation=True, timeout=300, tag="sensitivity:GenIdOutsideLock")
    C.run_tlc(ctx, "Client", "ClientJunk.cfg", workers=C.NCPU, timeout=1800, tag="ClientJunk.cfg")
    C.run_tlc(ctx, "Client", "ClientDevNoAckUnknownResult.cfg", workers=4, expect_violation=True, timeout=300, tag="sensitivity:NoAckForUnknownResult")
    # the numbering alone, over unbounded integers: TLC on a window (each deviation must break it), Apalache discharges the
    # inductive invariant for every clock value and every length of history
    ids = C.run_tlc(ctx, "MsgIds", "MsgIds.cfg", workers=C.NCPU, timeout=600, tag="MsgIds.cfg")
    for dev in ("GenIdOutsideLock", "ReturnNotStore", "SeqResetOnReconnect", "SeqFromSnapshot"):
        C.run_tlc(ctx, "MsgIds", "MsgIdsDev%s.cfg" % dev, workers=4, expect_violation=True, timeout=300, tag="sensitivity:MsgIds:" + dev)
    apa = C.run_apalache(ctx, "MsgIds", [("Init", "IndInv", 0), ("IndInit", "IndInv", 1), ("IndInit", "Safety", 0)])
    scs = scenarios(ctx, thorough)
    st = S.judge(ctx, scs, S.K_WIRE | {"process-died"}, "order")
    C.write_evidence(ctx, "model_checking", {
        "states": mc.distinct, "transitions": mc.generated, "traces_validated_against_impl": st["scenarios"],
        "evaluations": st["events"], "distinct_nontrivial": st["scenarios"],
        "rule": "Client.tla: WireIdsIncrease, SeqNoRules and AckedAll (every content-related message the loop finished with is acknowledged, "
                "also results nobody waits for: ClientJunk.cfg; NoAckForUnknownResult must break it) over every interleaving of callers and the loop's own acknowledgements with a clock "
                "that may stand still; GenIdOutsideLock alone must violate it; schedules from tlc -simulate (callers held right after "
                "taking their id, released in every order) replayed with real goroutines, named hold-and-overtake schedules, server "
                "histories mixing content-related and service messages, seeded 8-goroutine runs; the server's arrival-order log of "
                "(msg_id, seq_no, kind) judged by TLC (ClientTrace)",
        "unbounded_numbering": {"module": "MsgIds.tla", "tlc_window_states": ids.distinct,
                                "apalache_inductive_steps": [{"step": a["tag"], "ok": a["ok"]} for a in apa],
                                "proved_for_every_clock_value_and_history_length": all(a["ok"] for a in apa)},
        "samples": st["sample"], "exhaustive": False, "verdict_kinds_seen": st["verdict_kinds"], "kinds_not_judged_here": st["ignored_kinds"],
    }, ["arrival order at the reference server = write order (one TCP connection)", "whether an acknowledgement advances seq_no is left open"])
