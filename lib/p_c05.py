"""C05 - AES-256-IGE and the padding wrappers (spec/IGE.tla, IGEToy.tla, IGEToyGen.tla, IGETerm.tla)."""
import json
import os

import common as C


def run(ctx):
    thorough = ctx.tier == "thorough"
    mc = C.run_tlc(ctx, "IGEToy", "IGEToy3.cfg" if thorough else "IGEToy.cfg", workers=C.NCPU, timeout=1800)
    for d in ("XorIntoY", "NoPrevPlain", "SwapXY"):
        C.run_tlc(ctx, "IGEToy", "IGEToyDev%s.cfg" % d, workers=4, expect_violation=True, timeout=300,
                  tag="sensitivity:" + d)
    toy = os.path.join(ctx.wd, "ige_toy.ndjson")
    C.run_tlc(ctx, "IGEToyGen", "IGEToyGen3.cfg" if thorough else "IGEToyGen.cfg", workers=1, env={"VERIF_OUT": toy},
              timeout=900, tag="generate-toy")
    terms = os.path.join(ctx.wd, "ige_terms.ndjson")
    C.run_tlc(ctx, "IGETerm", "IGETermThorough.cfg" if thorough else "IGETerm.cfg", workers=1, env={"VERIF_OUT": terms},
              timeout=900, tag="generate-terms")
    r = C.run_harness(ctx, ["ige", "-toy", toy, "-terms", terms, "-seed", str(ctx.seed),
                            "-concretisations", "12" if thorough else "3"], timeout=1800)
    rep = json.loads(r.stdout)
    # the wrappers and the key schedule from eight goroutines at once (senders encrypt while the receive loop decrypts)
    crep = C.run_harness_phase(ctx, ["envelopeconc", "-seed", str(ctx.seed + 5), "-rounds", "20000" if thorough else "4000"],
                               "process-died:concurrent", "encrypting and decrypting from eight goroutines", timeout=1800)
    for d in (crep or {}).get("disagreements", []):
        ctx.disagreement("concurrent:" + d["sig"].split(":", 1)[1], d["detail"], d["case"])
    for d in rep["disagreements"]:
        ctx.disagreement(d["sig"], d["detail"], d["case"])
    ncases = rep["extra"]["toy_cases"] + sum(1 for _ in open(terms))
    C.write_evidence(ctx, "model_checking", {
        "states": mc.distinct, "transitions": mc.generated,
        "traces_validated_against_impl": ncases,
        "evaluations": rep["evaluations"], "distinct_nontrivial": rep["distinct"],
        "rule": "IGEToy: every permutation key x IV pair x message of 1..%d 2-bit blocks x direction, block loop with registers as "
                "locations (aliasing of the caller's buffer modelled) against the IGE definition; the same behaviours lifted to 16-byte "
                "blocks and run through the real loop (hook); IGETerm: IGE definition with real AES for several block counts, temp keys "
                "for nonces with 0/1/2 leading zero bytes, wrapper for every payload length 0..%d in both directions, every length "
                "0..40 for validation; each with seeded concrete inputs" % (3 if thorough else 2, 200 if thorough else 48),
        "samples": rep["samples"], "exhaustive": True,
        "toy_cases": rep["extra"]["toy_cases"], "term_evaluations": rep["extra"]["term_evaluations"],
        "disagreement_signatures": rep["sig_counts"],
    }, ["AES block function and SHA-1 are Go's; the specification fixes chaining, layout, widths, padding amounts",
        "the toy instance checks the algebra and the aliasing discipline, not 128-bit arithmetic"])


def replay(ctx, path):
    rec = json.load(open(path))
    ctx.seed = rec["seed"]
    ctx.tier = rec.get("tier", "quick")
    print("C05 replay: case class %s, re-running with seed %d" % (rec["signature"], ctx.seed))
    run(ctx)
