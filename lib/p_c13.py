"""C13 - the shipped API layer is a faithful translation of the shipped schema
(spec/SchemaDefs.tla, SchemaXlate.tla; method contracts and wrapper images from TLCodecGen.tla)."""
import json
import os

import common as C
import p_codec
from p_c01 import replay  # noqa: F401


def run(ctx):
    thorough = ctx.tier == "thorough"
    schema, registry = p_codec.extract(ctx)
    wrappers = os.path.join(ctx.wd, "wrappers.json")
    C.run_harness(ctx, ["wrappers", wrappers])
    # 1. structural comparison, evaluated by TLC on data from the working tree
    out = os.path.join(ctx.wd, "xlate.ndjson")
    sx = C.run_tlc(ctx, "SchemaXlate", "SchemaXlate.cfg", workers=1, timeout=1800, tag="faithful-translation",
                   env={"VERIF_SCHEMA": schema, "VERIF_REGISTRY": registry, "VERIF_WRAPPERS": wrappers, "VERIF_OUT": out})
    if not os.path.exists(out):
        raise C.Broken("SchemaXlate wrote nothing:\n" + sx.out[-2000:])
    findings = C.read_ndjson(out)
    for f in findings:
        ctx.disagreement("%s:%s" % (f["problem"], f["name"]), "%s#%s: %s" % (f["name"], f["idhex"], f["problem"]), f)
    ndefs = len(json.load(open(schema)))
    # 2. wrapper byte images + 3. method contracts
    cases = os.path.join(ctx.wd, "codec_cases.ndjson")
    methods = os.path.join(ctx.wd, "method_cases.ndjson")
    cfg = os.path.join(C.spec_copy(ctx), "TLCodecGenRun.cfg")
    with open(cfg, "w") as fh:
        fh.write("CONSTANTS Stride = 1000000\n Seed = 1\n StrLens = {1}\n BigLens = {}\n")
    C.run_tlc(ctx, "TLCodecGen", "TLCodecGenRun.cfg", workers=1, timeout=3000, tag="generate-method-cases",
              env={"VERIF_SCHEMA": schema, "VERIF_OUT": cases, "VERIF_METHODS": methods})
    r = C.run_harness(ctx, ["codec", "-cases", cases], timeout=1800)
    rep = json.loads(r.stdout)
    for d in rep["disagreements"]:
        if d["sig"].startswith("C13:"):
            ctx.disagreement(d["sig"], d["detail"], d["case"])
        elif d["sig"].split(":")[0] in ("C01", "C02"):
            # a registered type that does not serialise / deserialise as its schema line prescribes (patterns min / full /
            # shared groups of every definition) is not a faithful translation either
            ctx.disagreement("C13:serialisation:" + ":".join(d["sig"].split(":")[1:]), d["detail"], d["case"])
    key = os.path.join(ctx.wd, "rsa.key")
    C.run_harness(ctx, ["rsakey", key])
    r = C.run_harness(ctx, ["methods", "-cases", methods, "-key", key], timeout=1800)
    mrep = json.loads(r.stdout)
    for d in mrep["disagreements"]:
        ctx.disagreement(d["sig"], d["detail"], d["case"])
    import p_boot
    boot = p_boot.run(ctx, p_boot.K_C13, 120 if ctx.tier == "thorough" else 24, "C13")
    C.write_evidence(ctx, "model_checking", {
        "bootstrap": boot,
        "states": max(1, ndefs), "transitions": max(1, ndefs + mrep["evaluations"]),
        "traces_validated_against_impl": mrep["evaluations"],
        "evaluations": ndefs + mrep["evaluations"], "distinct_nontrivial": ndefs,
        "rule": "SchemaXlate (evaluated by TLC on the lexed .tl text and the reflected registry of the built binary): for each of the %d "
                "definitions id = CRC-32(canonical line) (CRC computed in TLA+), exactly one registered type, enum vs struct, field count, "
                "kinds in order, vector markers, conditional bits, flags-word position; nothing registered outside the schemas; generic "
                "wrappers present and byte-exact; %d generated client methods called by reflection against the reference server with "
                "position-naming arguments: request bytes = schema image, returned value = answer of the declared result kind and admitting "
                "every constructor of the result type, vector-returning methods (and every seventh other) refused once with bad_server_salt; "
                "min / full / shared-group values of every definition serialise to the schema image and back"
                % (ndefs, mrep["evaluations"]),
        "samples": mrep["samples"] + findings[:2], "exhaustive": True,
        "findings": [f["problem"] + ":" + f["name"] for f in findings],
    }, ["TLC reports no state graph here: the specification is evaluated as a relation over extracted data (states/transitions give the "
        "number of definitions / comparisons)", "five definitions kept as comment lines in api_121.tl count as defined; their CRC is not checked"])
