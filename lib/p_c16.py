"""C16 - no server message kills the client or stops its loop (spec/Client.tla loop, ClientTrace.tla)."""
import itertools

import common as C
import p_session as S
from p_c09 import model_check, replay  # noqa: F401

ALPHABET = ["pong", "msgs_ack", "new_session", "update_short", "api_object", "unknown_ctor", "truncated", "empty_body", "empty_container",
            "nested_container", "unsolicited_result", "repeated_result", "bad_msg", "future_salts", "msgs_state_info", "msg_detailed_info",
            "msg_new_detailed_info", "gzip_update", "rpc_error_unsolicited", "code404", "garbage_frame", "short_frame",
            "rpc_result_cut4", "rpc_result_cut8", "rpc_result_cut12", "gzip_damaged", "gzip_damaged_in_result"]


def scenarios(ctx, thorough):
    scs = []
    sid = 0
    P = lambda t: {"a": "Probe", "tag": t}
    for w in ALPHABET:
        for cfg in ((True, True), (False, False)):
            sid += 1
            scs.append(S.mk(sid, "push-" + w, "robust", [P(90), {"a": "Push", "what": w}, {"a": "Settle"}, P(91), {"a": "Settle"}],
                            warnings=cfg[0], handler=cfg[1]))
    pairs = list(itertools.permutations(ALPHABET, 2))
    import random
    rng = random.Random(ctx.seed + 16)
    rng.shuffle(pairs)
    for a, b in pairs[: (300 if thorough else 24)]:
        sid += 1
        scs.append(S.mk(sid, "push-%s-%s" % (a, b), "robust", [P(90), {"a": "Push", "what": a}, {"a": "Push", "what": b}, {"a": "Settle"}, P(91), {"a": "Settle"}]))
    # an item the client cannot use inside a container with results: the results must still reach their callers
    for junk in S.JUNK:
        for at in ("first", "last"):
            sid += 1
            scs.append(S.mk(sid, "container-%s-%s" % (junk, at), "robust",
                            [P(90), S.call("c1", 11), S.call("c2", 12),
                             {"a": "Answer", "tags": [11, 12], "container": True, "junk": junk, "junkat": at, "n": 400},
                             {"a": "Drain"}, P(91), {"a": "Settle"}]))
    # behaviours of Client.tla with junk items (tlc -simulate): callers, rotations, containers holding an item nobody waits for
    import random as _r
    rng2 = _r.Random(ctx.seed + 160)
    hists = [h for h in S.tlc_schedules(ctx, "ClientGenJunk.cfg", 400 if thorough else 60) if any(x.get("junk") for x in h)]
    for h in hists[: (200 if thorough else 20)]:
        sid += 1
        scs.append(S.mk(sid, "tlc-junk", "robust", S.project(h, rng2, S.ALL_KINDS), gates=["send.genid"]))
    # messages addressed to a request that was rejected with bad_server_salt and re-sent under a new id
    for w in ("late_result_for_rejected", "repeated_bad_salt"):
        sid += 1
        scs.append(S.mk(sid, "after-rotation-" + w, "robust",
                        [P(90), {"a": "Rotate"}, S.call("c1", 11), {"a": "Answer", "tags": [11], "n": 600}, {"a": "Await", "c": "c1"},
                         {"a": "Push", "what": w}, {"a": "Settle"}, P(91), {"a": "Push", "what": w}, P(92), {"a": "Settle"}]))
    # a result the client cannot read for a request that is waiting, sent once, twice and three times (it is never acknowledged,
    # so a server sends it again), then the result in a readable form: the loop reads on, the caller gets its answer
    for n in (1, 2, 3):
        for kind in ("object", "vecint"):
            sid += 1
            scs.append(S.mk(sid, "undecodable-result-x%d-%s" % (n, kind), "robust", [P(90), S.call("c1", 11, kind), {"a": "Sleep", "n": 80}] +
                            [{"a": "Push", "what": "undecodable_result_for_pending"}] * n +
                            [{"a": "Sleep", "n": 150}, P(91), {"a": "Answer", "tags": [11], "n": 400}, {"a": "Drain"}, P(92), {"a": "Settle"}]))
    # the session store fails while the server makes the client write to it (salt rotation, new session): a local fault
    # is no reason for the process to die on a server message
    sid += 1
    scs.append(S.mk(sid, "failing-store", "robust", [P(90), {"a": "Rotate"}, P(91), {"a": "Push", "what": "new_session_newsalt"}, {"a": "Settle"}, P(92), {"a": "Settle"}],
                    failstore=True))
    # a content-related message and, without waiting for its acknowledgement, the end of the connection
    for w in ("api_object", "update_short", "unsolicited_result"):
        sid += 1
        scs.append(S.mk(sid, "close-right-after-" + w, "reconnect",
                        [P(90), {"a": "PushClose", "what": w}, {"a": "Sleep", "n": 250}, P(91), {"a": "PushClose", "what": w}, {"a": "Sleep", "n": 250}, P(92),
                         {"a": "Settle"}]))
    # behaviours of Client.tla in which the server closes the connection (SrvClose / LoopEof / LoopReconnect) between calls,
    # rotations and answers, at moments when nothing is pending
    hists = [h for h in S.tlc_schedules(ctx, "ClientGenClose.cfg", 400 if thorough else 80) if any(x.get("a") == "Close" for x in h)]
    for h in hists[: (150 if thorough else 16)]:
        sid += 1
        # callers are held only where they wait for their next attempt (gate call.woke, outside every lock): a caller parked
        # inside the send section would keep the loop from acknowledging, hence from seeing the end of the stream
        scs.append(S.mk(sid, "tlc-close", "reconnect", S.project(h, rng2, S.ALL_KINDS), gates=["call.woke"]))
    # orderly close between messages, then a probe: reconnect with the same key
    for w in [None] + (ALPHABET if thorough else ALPHABET[:8]):
        sid += 1
        steps = [P(90)] + ([{"a": "Push", "what": w}] if w else []) + [{"a": "Close"}, P(91), {"a": "Close"}, P(92), {"a": "Settle"}]
        scs.append(S.mk(sid, "close-after-%s" % w, "reconnect", steps, fresh=(sid % 4 == 0)))
    return scs


def keepalive_observation(ctx):
    """Routines.tla, Keepalive: a client that sits idle for two ticker periods.  As coded (PongIgnored) the pinging routine
    never comes back from its first call; the number of pings the reference server saw is recorded as an observation - C16
    demands that later requests complete (the probe at the end is judged like every other), not a keep-alive."""
    sc = S.mk(1, "idle-two-ticker-periods", "robust", [{"a": "Probe", "tag": 90}, {"a": "Sleep", "n": int(__import__("os").environ.get("VERIF_IDLE_MS", "128000"))}, {"a": "Probe", "tag": 91}, {"a": "Settle"}])
    st = S.judge(ctx, [sc], S.K_LIVE | S.K_CONN | S.K_RESULT, "robust", batch=1)
    evs = ctx.last_events.get(sc["id"], [])
    pings = [e for e in evs if e.get("e") == "Wire" and e.get("kind") == "ping"]
    probes = [e for e in evs if e.get("e") == "Return"]
    return {"what": "idle for 128 s on one connection (two periods of the one-minute ticker)", "pings_seen_by_the_server": len(pings),
            "as_specified": 2, "as_coded_PongIgnored": 1, "probes_returned": len(probes),
            "reading": "keep-alive stops after the first ping of a connection" if len(pings) < 2 else "keep-alive continues"}


def run(ctx):
    thorough = ctx.tier == "thorough"
    mc = model_check(ctx, False)
    mj = C.run_tlc(ctx, "Client", "ClientJunk.cfg", workers=C.NCPU, timeout=1800, tag="ClientJunk.cfg")
    C.run_tlc(ctx, "Client", "ClientDevAbortContainerLive.cfg", workers=4, expect_violation=True, timeout=600, tag="sensitivity:AbortContainerOnItemError")
    C.run_tlc(ctx, "Client", "ClientClose.cfg", workers=C.NCPU, timeout=1800, tag="ClientClose.cfg")
    C.run_tlc(ctx, "Client", "ClientDevDieOnEof.cfg", workers=4, expect_violation=True, timeout=300, tag="sensitivity:DieOnEof")
    # the goroutines behind a connection: contexts, reading and pinging routines, server close, migration, ticker
    mr = C.run_tlc(ctx, "Routines", "Routines.cfg", workers=4, timeout=600, deadlock=False, tag="Routines.cfg")
    C.run_tlc(ctx, "Routines", "RoutinesDevStaleLoopReconnects.cfg", workers=2, expect_violation=True, timeout=300, deadlock=False,
              tag="sensitivity:StaleLoopReconnects")
    C.run_tlc(ctx, "Routines", "RoutinesDevPongIgnored.cfg", workers=2, expect_violation=True, timeout=300, deadlock=False,
              tag="as-coded:PongIgnored")
    scs = scenarios(ctx, thorough)
    st = S.judge(ctx, scs, S.K_LIVE | S.K_CONN | S.K_RESULT, "robust", batch=4)
    observations = []
    if thorough:
        observations.append(keepalive_observation(ctx))
    C.write_evidence(ctx, "model_checking", {
        "states": mc.distinct + mj.distinct + mr.distinct, "transitions": mc.generated + mj.generated + mr.generated, "traces_validated_against_impl": st["scenarios"],
        "evaluations": st["events"], "distinct_nontrivial": st["scenarios"],
        "rule": "Client.tla: the loop never blocks on a hand-over nobody takes and keeps reading (NoStall*, LoopKeepsReading), also when "
                "containers hold an item nobody waits for (ClientJunk.cfg; AbortContainerOnItemError must stall a caller); behaviours of that "
                "model replayed, junk items of four kinds first / last in a container with live results; histories over "
                "a 22-member server alphabet (every MTProto service constructor, API objects as updates, unknown / truncated / empty bodies, "
                "empty and nested containers, unsolicited and repeated results, bad_msg_notification, transport error code, garbage and "
                "short frames), singly (with and without warning channel + handler), in seeded pairs, and orderly close at message "
                "boundaries - each followed by a probe that must complete; child process observed for death; judged by TLC (ClientTrace)",
        "samples": st["sample"], "exhaustive": False, "observations_outside_the_property": observations, "verdict_kinds_seen": st["verdict_kinds"], "kinds_not_judged_here": st["ignored_kinds"],
    }, ["the warning channel is drained by the harness (a user who installs it is expected to read it)",
        "orderly close = FIN after the last complete frame"])
