"""C14 - schema parser and code generator (spec/SchemaGen.tla: schema-building machine + translation T)."""
import collections
import copy
import glob
import json
import os
import random
import re
import shutil
import subprocess

import common as C

SHIPPED = sorted(glob.glob(os.path.join(C.REPO, "schemes", "*.tl")))


def build_tlgen(ctx):
    out = os.path.join(ctx.wd, "tlgen")
    r = subprocess.run(["go", "build", "-o", out, "."], cwd=os.path.join(C.REPO, "internal/cmd/tlgen"), env=C.go_env(),
                       capture_output=True, text=True, timeout=900)
    if r.returncode != 0:
        raise C.Broken("tlgen does not build:\n" + r.stderr[-3000:])
    return out


def schemas(ctx, bits, num, seed, tag):
    """Random behaviours of the schema-building machine for one set of flag bits."""
    cfg = "SchemaGenRun.cfg"
    with open(os.path.join(C.spec_copy(ctx), cfg), "w") as f:
        f.write("SPECIFICATION Spec\nCONSTANT BitsU = {%s}\nINVARIANT SubsetOK\nCHECK_DEADLOCK FALSE\n" % ", ".join(map(str, sorted(bits))))
    res = C.run_tlc(ctx, "SchemaGen", cfg, workers=1, simulate="num=%d" % num, extra=["-depth", "250", "-seed", str(seed)],
                    timeout=900, tag=tag)
    out, seen = [], set()
    for m in re.finditer(r'<<"SCHEMA", "(.*)">>', res.out):
        s = json.loads('"' + m.group(1) + '"')
        if s not in seen:
            seen.add(s)
            out.append(json.loads(s))
    if not out:
        raise C.Broken("no schemas from SchemaGen:\n" + res.out[-1500:])
    return out, res


def features(scs, feat):
    for sc in scs:
        D = sc["defs"]
        by_type = {}
        for d in D:
            if d["section"] == "types":
                by_type.setdefault(d["result"], []).append(d)
        for t, cs in by_type.items():
            if all(not c["params"] for c in cs):
                feat["enum-type"] += 1
                if any(c["name"].lower() == t.lower() for c in cs):
                    feat["enum-name-clash"] += 1
            elif len(cs) == 1:
                feat["single-constructor-type"] += 1
            else:
                feat["multi-constructor-type"] += 1
                if any(c["name"].lower() == t.lower() for c in cs):
                    feat["struct-name-clash"] += 1
            if "." in t:
                feat["namespace"] += 1
            if len(cs) > 1 and any("_" in c["name"] and c["name"].replace("_", "").lower() == t.lower() for c in cs) and not all(not c["params"] for c in cs):
                feat["mangled-name-clash"] += 1
        for d in D:
            bits = [p["bit"] for p in d["params"] if p["bit"] >= 0 and p["base"] != "true"]
            if len(bits) != len(set(bits)):
                feat["shared-flag-bit"] += 1
            for i, p in enumerate(d["params"]):
                if p["base"] == "#":
                    feat["flags-word-at-%d" % min(i, 3)] += 1
                elif p["base"] == "true":
                    feat["true-flag"] += 1
                else:
                    feat[("vector-of-" if p["vec"] else "scalar-") + (p["base"] if p["base"][0].islower() or p["base"] == "Bool" else "boxed")] += 1
                if p["bit"] >= 0:
                    feat["bit-%d" % p["bit"]] += 1
            if d["section"] == "functions":
                feat["function-returns-" + ("vector-" if d["resultvec"] else "") + (d["result"] if d["result"] in ("Bool", "int") else
                                                                                     "enum" if all(not c["params"] for c in by_type[d["result"]]) else "object")] += 1
                feat["function-%s-5-params" % ("over" if len([p for p in d["params"] if p["base"] != "#"]) > 5 else "upto")] += 1


NEEDED = ["enum-type", "enum-name-clash", "single-constructor-type", "multi-constructor-type", "struct-name-clash", "namespace", "shared-flag-bit",
          "true-flag", "flags-word-at-0", "flags-word-at-1", "function-returns-Bool", "function-returns-object", "function-returns-vector-int",
          "function-returns-vector-object", "function-returns-enum", "function-returns-vector-Bool", "function-returns-vector-enum", "mangled-name-clash", "function-over-5-params", "function-upto-5-params"] + \
         ["scalar-" + b for b in ("int", "long", "double", "string", "bytes", "Bool", "boxed")] + \
         ["vector-of-" + b for b in ("int", "long", "double", "string", "bytes", "Bool", "boxed")]


def run(ctx):
    thorough = ctx.tier == "thorough"
    rng = random.Random(ctx.seed)
    tlgen = build_tlgen(ctx)
    if thorough:
        order = list(range(32))
        rng.shuffle(order)
        bitsets = [{order[2 * i], order[2 * i + 1], rng.randrange(32)} for i in range(16)]
        num = 400
    else:
        mid = rng.sample(range(2, 31), 4)
        bitsets = [{0, mid[0], 31}, {1, mid[1], mid[2]}, {30, mid[3]}]
        num = 90
    feat = collections.Counter()
    tot = {"evaluations": 0, "sig_counts": {}, "samples": [], "packages": 0, "schemas": 0, "states": 0}
    first = None
    for k, bits in enumerate(bitsets):
        scs, res = schemas(ctx, bits, num, ctx.seed * 100 + k, "generate:bits=%s" % sorted(bits))
        m = re.search(r"The number of states generated: (\d+)", res.out)
        tot["states"] += int(m.group(1)) if m else 0
        features(scs, feat)
        if first is None:
            first = scs
        path = os.path.join(ctx.wd, "schemas-%d.ndjson" % k)
        C.write_ndjson(path, scs)
        work = os.path.join(ctx.wd, "genwork-%d" % k)
        r = C.run_harness(ctx, ["tlgencheck", "-schemas", path, "-tlgen", tlgen, "-work", work, "-repo", C.REPO] + (SHIPPED if k == 0 else []),
                          timeout=3000)
        shutil.rmtree(work, ignore_errors=True)
        # the generator, run in-process, may print on its own: the report is the last line
        rep = json.loads(r.stdout.strip().splitlines()[-1])
        tot["evaluations"] += rep["evaluations"]
        tot["schemas"] += len(scs)
        tot["packages"] += rep["extra"]["packages_compiled"]
        if not tot["samples"]:
            tot["samples"] = rep["samples"][:2]
        for kk, v in rep["sig_counts"].items():
            tot["sig_counts"][kk] = tot["sig_counts"].get(kk, 0) + v
        for d in rep["disagreements"]:
            ctx.disagreement(d["sig"], d["detail"], d["case"])
    missing = [f for f in NEEDED if not feat[f]]
    if thorough:
        missing += ["bit-%d" % b for b in range(32) if not feat["bit-%d" % b]]
    if missing:
        raise C.Broken("generated schemas never exercised: %s" % missing)
    # the binding is not vacuous: a schema whose expected translation is altered must be reported
    probe = None
    for sc in first:
        for j, e in enumerate(sc["expect"]):
            if e["class"] == "struct" and e["flagindex"] >= 0 and any(f["tag"] for f in e["fields"]):
                probe = copy.deepcopy(sc)
                probe["expect"][j]["flagindex"] += 1
                f = next(f for f in probe["expect"][j]["fields"] if f["tag"])
                f["tag"] = "flag:%d" % ((int(re.match(r"flag:(\d+)", f["tag"]).group(1)) + 1) % 32)
                break
        if probe:
            break
    if not probe:
        raise C.Broken("no schema with a flags word to probe the oracle with")
    ppath = os.path.join(ctx.wd, "probe.ndjson")
    C.write_ndjson(ppath, [probe])
    work = os.path.join(ctx.wd, "genwork-probe")
    r = C.run_harness(ctx, ["tlgencheck", "-schemas", ppath, "-tlgen", tlgen, "-work", work, "-repo", C.REPO], timeout=600)
    shutil.rmtree(work, ignore_errors=True)
    sigs = json.loads(r.stdout)["sig_counts"]
    if "C14:flags-word-position" not in sigs or "C14:conditional-tag" not in sigs:
        raise C.Broken("altered expectation (flags word position, tag) was not reported: %s" % sigs)
    C.write_evidence(ctx, "model_checking", {
        "states": tot["states"], "transitions": tot["states"], "traces_validated_against_impl": tot["schemas"],
        "evaluations": tot["evaluations"], "distinct_nontrivial": tot["schemas"],
        "rule": "SchemaGen.tla: random behaviours of the schema-building machine (invariant SubsetOK) give schemas + their translation "
                "Xlate (class, id, fields in order with Go kind / slice / tl tag, FlagIndex); each is rendered to .tl text (half of them "
                "with @type/@constructor/@param and plain comment lines): tlparser.ParseSchema must return exactly the definitions; tlgen "
                "built from the tree runs twice (byte-identical), output + stub Client compiles (go build), and the go/ast of the output "
                "must be Xlate: constants for enum constructors, a struct per other definition with CRC() = id, fields, tags, FlagIndex, "
                "registered in init, one Client method per function. Every schema under schemes/ must be accepted, reproducible and compile. "
                "An altered expectation must be reported (non-vacuity)",
        "samples": tot["samples"], "exhaustive": False, "disagreement_signatures": tot["sig_counts"],
        "features_exercised": dict(sorted(feat.items())), "packages_compiled": tot["packages"], "flag_bit_sets": [sorted(b) for b in bitsets],
    }, ["names of generated Go identifiers are the generator's choice: matching is by id (CRC() literal / constant value), not by name",
        "the generated code is compiled and its declarations are read, it is not executed against a server",
        "rendering of the schema text and of comments is done by the harness, not by the specification"])


def replay(ctx, path):
    rec = json.load(open(path))
    print("C14 replay: %s\n%s" % (rec["signature"], rec["case"].get("text", "")))
    ctx.seed = rec["seed"]
    run(ctx)
